#!/usr/bin/env python3
"""Generates the scheduler build of ozanh/ugo as a `go build -overlay` JSON (printed on stdout):

  * every non-test .go file of the root package (and of stdlib/time) that imports sync or sync/atomic, starts a
    goroutine or selects on channels is replaced by an instrumented copy in .work/sched/ (import paths rewritten to
    the shim packages; go/select/<-ch/close rewritten to vsched calls) -- produced from /repo's CURRENT working tree;
  * the shim packages of /verif/shim are added as virtual packages github.com/ozanh/ugo/vshim/{vsched,sync,atomic}.

/repo itself is not touched."""
import glob, json, os, subprocess, sys
root = os.path.dirname(os.path.dirname(os.path.abspath(__file__)))
out = os.path.join(root, ".work", "sched")
os.makedirs(out, exist_ok=True)
for f in glob.glob(os.path.join(out, "*")):
    os.remove(f)
rep = {}
files = sorted(glob.glob("/repo/*.go")) + sorted(glob.glob("/repo/stdlib/time/*.go")) + sorted(glob.glob("/repo/stdlib/strings/*.go"))
for src in files:
    if src.endswith("_test.go"):
        continue
    dst = os.path.join(out, os.path.relpath(src, "/repo").replace("/", "__"))
    r = subprocess.run([os.path.join(root, "bin", "rewrite"), "-chans", src, dst], capture_output=True, text=True)
    if r.returncode != 0:
        sys.stderr.write(r.stderr)
        sys.exit(2)
    if r.stdout.strip() == "changed":
        rep[src] = dst
for pkg in ("vsched", "sync", "atomic"):
    for f in glob.glob(os.path.join(root, "shim", pkg, "*.go")):
        rep[os.path.join("/repo/vshim", pkg, os.path.basename(f))] = f
# verif-only additions of the ordinary overlay stay available
add = os.path.join(root, "overlay", "add")
for d, _, fs in os.walk(add):
    for f in fs:
        if f.endswith(".go"):
            rep[os.path.join("/repo", os.path.relpath(os.path.join(d, f), add))] = os.path.join(d, f)
# the same overlay plus the command: cmd/ugo/main.go instrumented (its main renamed) and the harness added to package main
cmd = dict(rep)
dst = os.path.join(out, "cmd__ugo__main.go")
r = subprocess.run([os.path.join(root, "bin", "rewrite"), "-chans-main", "/repo/cmd/ugo/main.go", dst], capture_output=True, text=True)
if r.returncode != 0:
    sys.stderr.write(r.stderr)
    sys.exit(2)
cmd["/repo/cmd/ugo/main.go"] = dst
cmd["/repo/cmd/ugo/zz_vsched_harness.go"] = os.path.join(root, "shim", "cmdharness", "harness.go")
open(os.path.join(root, ".work", "schedcmd.json"), "w").write(json.dumps({"Replace": cmd}, indent=1))
print(json.dumps({"Replace": rep}, indent=1))
