#!/usr/bin/env python3
"""Prints the violations of a schedule check (replays/<id>/*.json) with run-length-compressed traces."""
import json, glob, re, sys
pid = sys.argv[1] if len(sys.argv) > 1 else "C09"
def rle(t):
    toks = t.split(" ")
    out = []
    i = 0
    while i < len(toks):
        # find repeating groups of length 1..6
        best = (1, 1)
        for g in range(1, 7):
            n = 1
            while toks[i:i+g] == toks[i+n*g:i+(n+1)*g] and toks[i:i+g]:
                n += 1
            if n > 1 and n*g > best[0]*best[1]:
                best = (g, n)
        g, n = best
        if n > 1:
            out.append("[" + " ".join(toks[i:i+g]) + "]x%d" % n)
            i += g*n
        else:
            out.append(toks[i]); i += 1
    return " ".join(out)
for f in sorted(glob.glob("/verif/replays/%s/*.json" % pid)):
    d = json.load(open(f))
    det = d.get("detail", {}) or {}
    print(d.get("key"), "|", d.get("what"))
    print("  failing %s of %s schedules; shown: %s preemptions" % (det.get("failing_schedules"), det.get("of_schedules"), det.get("preemptions_of_shown_schedule")))
    print("  " + rle(det.get("trace", ""))[:1500])
