#!/usr/bin/env python3
"""Bookkeeping for seeded property-breaking changes.

  tools/seed.py confirm <Cxx> <A|B>      confirm a sub-agent's change in a scratch worktree of /repo HEAD and
                                         store it as /verif/seeded/<Cxx>-<X>/ (patch rebased on HEAD, demo, notes, meta.json)
  tools/seed.py try <Cxx>-<X> <check> [tier]   apply the stored patch to /repo, run the check, undo, record the verdict
  tools/seed.py table                    print which checks catch which changes

Nothing is ever committed to /repo by this script.
"""
import json, os, re, shutil, subprocess, sys, glob

ENV = dict(os.environ, GOFLAGS="-mod=mod", GOPROXY="off", GOSUMDB="off", GOTOOLCHAIN="local")
SEEDED = "/verif/seeded"
SRC = "/tmp/seed/out"


def sh(cmd, cwd=None, timeout=1800):
    p = subprocess.run(cmd, shell=True, cwd=cwd, env=ENV, stdout=subprocess.PIPE, stderr=subprocess.STDOUT, text=True, timeout=timeout)
    return p.returncode, p.stdout


PKGDIR = {"ugo_test": ".", "ugo": ".", "encoder_test": "encoder", "encoder": "encoder", "json_test": "stdlib/json", "json": "stdlib/json",
          "strings_test": "stdlib/strings", "strings": "stdlib/strings", "time_test": "stdlib/time", "time": "stdlib/time",
          "fmt_test": "stdlib/fmt", "fmt": "stdlib/fmt", "parser_test": "parser", "parser": "parser", "main": "cmd/ugo", "importers_test": "importers", "importers": "importers", "registry_test": "registry", "registry": "registry"}


def confirm(pid, x, srcroot=None, storeas=None, rnd=None):
    src = os.path.join(srcroot or (SRC if x in ("A", "B") else "/tmp/seed2/out"), pid, x)
    out = os.path.join(SEEDED, "%s-%s" % (pid, storeas or x))
    wt = "/tmp/scratch/seed-%s-%s" % (pid, storeas or x)
    os.makedirs("/tmp/scratch", exist_ok=True)
    sh("git -C /repo worktree remove --force %s; rm -rf %s; git -C /repo worktree prune" % (wt, wt))
    rc, o = sh("git -C /repo worktree add --detach %s HEAD" % wt)
    if rc:
        print(o)
        return 2
    meta = {"property": pid, "variant": x, "source": "independent sub-agent given only the property text and its own scratch worktree (round %s)" % (rnd or (1 if x in ("A", "B") else 2))}
    try:
        head = sh("git rev-parse --short HEAD", cwd=wt)[1].strip()
        meta["confirmed_at_repo_head"] = head
        demos = sorted(glob.glob(os.path.join(src, "*_test.go")))
        if not demos:
            print("no demo")
            return 3
        demo = demos[0]
        pkg = re.search(r"^package\s+(\w+)", open(demo).read(), re.M).group(1)
        d = PKGDIR[pkg]
        rc, o = sh("git apply --check %s/patch.diff" % src, cwd=wt)
        how = "git apply"
        if rc:
            rc, o = sh("patch -p1 --fuzz=3 --no-backup-if-mismatch < %s/patch.diff" % src, cwd=wt)
            how = "patch --fuzz=3 (context moved by later fix: commits)"
            if rc:
                meta["status"] = "does-not-apply"
                meta["apply_output"] = o[-2000:]
                print("RESULT %s/%s: patch does not apply to HEAD %s" % (pid, x, head))
                os.makedirs(out, exist_ok=True)
                shutil.copy(os.path.join(src, "patch.diff"), os.path.join(out, "patch.orig.diff"))
                json.dump(meta, open(os.path.join(out, "meta.json"), "w"), indent=1)
                return 4
        else:
            sh("git apply %s/patch.diff" % src, cwd=wt)
        sh("find . -name '*.orig' -delete; find . -name '*.rej' -delete", cwd=wt)
        rebased = sh("git diff", cwd=wt)[1]
        meta["applied_with"] = how
        rc, o = sh("go build ./...", cwd=wt)
        meta["builds"] = rc == 0
        rc, o = sh("go test -vet=off -count=1 ./... 2>&1 | grep -v 'no test files'", cwd=wt)
        bad = [l for l in o.splitlines() if l.strip() and not l.startswith("ok")]
        meta["suite_passes_with_change"] = not bad
        meta["suite_cmd"] = "go test -vet=off -count=1 ./..."
        shutil.copy(demo, os.path.join(wt, d, "zz_seed_demo_test.go"))
        rc_with, o_with = sh("go test -vet=off -count=1 ./%s/" % d, cwd=wt, timeout=900)
        sh("git checkout -- .", cwd=wt)
        rc_without, o_without = sh("go test -vet=off -count=1 ./%s/" % d, cwd=wt, timeout=900)
        meta["demo"] = {"file": os.path.basename(demo), "package_dir": d, "cmd": "cp demo into %s/ && go test -vet=off -count=1 ./%s/" % (d, d),
                        "fails_with_change": rc_with != 0, "passes_without_change": rc_without == 0,
                        "output_with_change_tail": o_with[-1500:]}
        ok = meta["builds"] and meta["suite_passes_with_change"] and rc_with != 0 and rc_without == 0
        meta["status"] = "confirmed" if ok else "not-confirmed"
        notes = os.path.join(src, "notes.md")
        if os.path.exists(notes):
            txt = open(notes).read()
            meta["needs_to_manifest"] = "see notes.md"
        os.makedirs(out, exist_ok=True)
        open(os.path.join(out, "patch.diff"), "w").write(rebased)
        shutil.copy(os.path.join(src, "patch.diff"), os.path.join(out, "patch.orig.diff"))
        shutil.copy(demo, os.path.join(out, os.path.basename(demo)))
        if os.path.exists(notes):
            shutil.copy(notes, os.path.join(out, "notes.md"))
        old = {}
        mp = os.path.join(out, "meta.json")
        if os.path.exists(mp):
            old = json.load(open(mp))
        if "checks" in old:
            meta["checks"] = old["checks"]
        json.dump(meta, open(mp, "w"), indent=1)
        print("RESULT %s/%s: status=%s suite=%s demo_with=%s demo_without=%s (%s)" % (pid, x, meta["status"], meta["suite_passes_with_change"], rc_with, rc_without, how))
        return 0 if ok else 7
    finally:
        sh("git -C /repo worktree remove --force %s; git -C /repo worktree prune" % wt)


def try_(name, check, tier="quick"):
    d = os.path.join(SEEDED, name)
    patch = os.path.join(d, "patch.diff")
    rc, o = sh("git diff --quiet", cwd="/repo")
    if rc:
        print("/repo has uncommitted changes")
        return 2
    rc, o = sh("git apply --check %s" % patch, cwd="/repo")
    if rc:
        print("stored patch does not apply to /repo HEAD (re-run confirm):", o)
        return 3
    sh("git apply %s" % patch, cwd="/repo")
    ev = "/verif/evidence/%s.json" % check
    saved = open(ev).read() if os.path.exists(ev) else None
    try:
        rc, o = sh("./run.sh %s %s" % (check, tier), cwd="/verif", timeout=7200)
    finally:
        sh("git checkout -- .", cwd="/repo")
        # the evidence of a run against a seeded tree is not kept
        if saved is not None:
            open(ev, "w").write(saved)
    viol = [l for l in o.splitlines() if l.startswith("VIOLATION")]
    what = [l.strip() for l in o.splitlines() if l.strip().startswith("what:")][:2]
    mp = os.path.join(d, "meta.json")
    meta = json.load(open(mp))
    meta.setdefault("checks", {})["%s/%s" % (check, tier)] = {"exit": rc, "violation_lines": len(viol), "first": what[:1],
                                                              "cmd": "git -C /repo apply seeded/%s/patch.diff && ./run.sh %s %s; git -C /repo checkout -- ." % (name, check, tier)}
    json.dump(meta, open(mp, "w"), indent=1)
    print("TRY %s vs %s/%s: exit=%d violations=%d %s" % (name, check, tier, rc, len(viol), what[:1]))
    print(o.splitlines()[-1] if o.splitlines() else "")
    return 0


def table():
    rows = []
    for mp in sorted(glob.glob(os.path.join(SEEDED, "*", "meta.json"))):
        m = json.load(open(mp))
        name = os.path.basename(os.path.dirname(mp))
        det = [k for k, v in m.get("checks", {}).items() if v["exit"] == 1]
        miss = [k for k, v in m.get("checks", {}).items() if v["exit"] != 1]
        rows.append((name, m.get("status"), ",".join(det) or "-", ",".join(miss) or "-"))
    for r in rows:
        print("%-8s %-14s caught_by=%-30s missed_by=%s" % r)


if __name__ == "__main__":
    a = sys.argv[1:]
    if a[0] == "confirm":
        sys.exit(confirm(a[1], a[2], *(a[3:6])))
    if a[0] == "try":
        sys.exit(try_(a[1], a[2], *(a[3:4])))
    if a[0] == "table":
        table()
