#!/bin/bash
# usage: tools/try_seed.sh <patch.diff> <Cxx> [tier]  -- applies the patch to /repo, runs the check, reverts.
set -u
patch=$1; id=$2; tier=${3:-quick}
cd /repo || exit 2
if ! git diff --quiet; then echo "/repo has uncommitted changes"; exit 2; fi
if ! git apply --check "$patch" 2>/dev/null; then echo "SEED patch does not apply: $patch"; exit 3; fi
git apply "$patch"
cd /verif && ./run.sh $id $tier > /tmp/scratch/try_seed.out 2>&1; rc=$?
git -C /repo checkout -- .
git -C /verif checkout -- evidence/$id.json 2>/dev/null
grep -c "^VIOLATION" /tmp/scratch/try_seed.out | sed "s/^/violations_printed=/"
grep -m2 "what:" /tmp/scratch/try_seed.out
tail -1 /tmp/scratch/try_seed.out
echo "exit=$rc"
