// Command rewrite instruments Go source for the controlled scheduler.
//
//	rewrite -imports in.go out.go    only rewrites the import paths "sync" and "sync/atomic" to the shim packages
//	rewrite -chans   in.go out.go    additionally turns `go` statements, `select`, `<-ch` statements and close(ch)
//	                                 into calls of github.com/ozanh/ugo/vshim/vsched
//
// Only the channel idioms the repository uses (close-only signal channels) are
// supported; anything else is rejected loudly (an infrastructure error of the
// check, never a verdict).
package main

import (
	"bytes"
	"fmt"
	"go/ast"
	"go/format"
	"go/parser"
	"go/token"
	"os"
	"strconv"
)

const (
	shimSync   = "github.com/ozanh/ugo/vshim/sync"
	shimAtomic = "github.com/ozanh/ugo/vshim/atomic"
	vsched     = "github.com/ozanh/ugo/vshim/vsched"
)

func fail(format string, a ...any) {
	fmt.Fprintf(os.Stderr, "rewrite: "+format+"\n", a...)
	os.Exit(3)
}

func main() {
	if len(os.Args) != 4 {
		fail("usage: rewrite -imports|-chans|-chans-main in.go out.go")
	}
	mode, in, out := os.Args[1], os.Args[2], os.Args[3]
	fset := token.NewFileSet()
	f, err := parser.ParseFile(fset, in, nil, parser.ParseComments)
	if err != nil {
		fail("%v", err)
	}
	for _, imp := range f.Imports {
		switch imp.Path.Value {
		case `"sync"`:
			imp.Path.Value = strconv.Quote(shimSync)
		case `"sync/atomic"`:
			imp.Path.Value = strconv.Quote(shimAtomic)
		}
	}
	if mode == "-chans-main" {
		// the command's main() makes room for the harness's
		for _, d := range f.Decls {
			if fd, ok := d.(*ast.FuncDecl); ok && fd.Recv == nil && fd.Name.Name == "main" {
				fd.Name.Name = "mainOrig"
			}
		}
		mode = "-chans"
	}
	if mode == "-chans" {
		r := &rewriter{fset: fset}
		for _, imp := range f.Imports {
			if imp.Path.Value == `"time"` && imp.Name == nil {
				r.sleeps = true
			}
		}
		r.file(f)
		if r.used {
			addImport(f, vsched)
		}
		if r.timeUsed {
			f.Decls = append(f.Decls, &ast.GenDecl{Tok: token.VAR, Specs: []ast.Spec{&ast.ValueSpec{
				Names: []*ast.Ident{ast.NewIdent("_")},
				Type:  &ast.SelectorExpr{X: ast.NewIdent("time"), Sel: ast.NewIdent("Duration")},
			}}})
		}
	}
	changed := false
	for _, imp := range f.Imports {
		if imp.Path.Value == strconv.Quote(shimSync) || imp.Path.Value == strconv.Quote(shimAtomic) || imp.Path.Value == strconv.Quote(vsched) {
			changed = true
		}
	}
	if !changed {
		fmt.Println("same")
		return
	}
	fmt.Println("changed")
	var buf bytes.Buffer
	if err := format.Node(&buf, fset, f); err != nil {
		fail("%v", err)
	}
	if err := os.WriteFile(out, buf.Bytes(), 0o644); err != nil {
		fail("%v", err)
	}
}

func addImport(f *ast.File, path string) {
	spec := &ast.ImportSpec{Path: &ast.BasicLit{Kind: token.STRING, Value: strconv.Quote(path)}}
	for _, d := range f.Decls {
		if gd, ok := d.(*ast.GenDecl); ok && gd.Tok == token.IMPORT {
			gd.Specs = append(gd.Specs, spec)
			if !gd.Lparen.IsValid() {
				gd.Lparen = gd.Pos()
				gd.Rparen = gd.End()
			}
			f.Imports = append(f.Imports, spec)
			return
		}
	}
	f.Decls = append([]ast.Decl{&ast.GenDecl{Tok: token.IMPORT, Specs: []ast.Spec{spec}}}, f.Decls...)
}

type rewriter struct {
	fset     *token.FileSet
	used     bool
	timeUsed bool // a time.After call was replaced: keep the import "time" used
	sleeps   bool // rewrite time.Sleep statements (only when the file imports the standard "time" package as time)
}

func (r *rewriter) call(fn string, args ...ast.Expr) *ast.CallExpr {
	r.used = true
	return &ast.CallExpr{Fun: &ast.SelectorExpr{X: ast.NewIdent("vsched"), Sel: ast.NewIdent(fn)}, Args: args}
}

func (r *rewriter) file(f *ast.File) {
	for _, d := range f.Decls {
		if fd, ok := d.(*ast.FuncDecl); ok && fd.Body != nil {
			r.block(fd.Body)
		}
	}
}

func (r *rewriter) block(b *ast.BlockStmt) {
	if b == nil {
		return
	}
	for i, s := range b.List {
		b.List[i] = r.stmt(s)
	}
}

func recvChan(e ast.Expr) (ast.Expr, bool) {
	if u, ok := e.(*ast.UnaryExpr); ok && u.Op == token.ARROW {
		return u.X, true
	}
	return nil, false
}

func (r *rewriter) stmt(s ast.Stmt) ast.Stmt {
	switch s := s.(type) {
	case *ast.GoStmt:
		r.exprs(s.Call)
		pos := r.fset.Position(s.Pos())
		body := &ast.FuncLit{Type: &ast.FuncType{Params: &ast.FieldList{}}, Body: &ast.BlockStmt{List: []ast.Stmt{&ast.ExprStmt{X: s.Call}}}}
		return &ast.ExprStmt{X: r.call("Go", &ast.BasicLit{Kind: token.STRING, Value: strconv.Quote(fmt.Sprintf("go@%d", pos.Line))}, body)}
	case *ast.SelectStmt:
		var chans []ast.Expr
		var bodies [][]ast.Stmt
		var def []ast.Stmt
		hasDef := false
		for _, c := range s.Body.List {
			cc := c.(*ast.CommClause)
			for i, bs := range cc.Body {
				cc.Body[i] = r.stmt(bs)
			}
			if cc.Comm == nil {
				hasDef = true
				def = cc.Body
				continue
			}
			es, ok := cc.Comm.(*ast.ExprStmt)
			if !ok {
				fail("%s: unsupported select case (only `case <-ch:` is supported)", r.fset.Position(cc.Pos()))
			}
			ch, ok := recvChan(es.X)
			if !ok {
				fail("%s: unsupported select case", r.fset.Position(cc.Pos()))
			}
			// a timer channel (`case <-time.After(d):`) becomes the scheduler's always-ready timer
			if call, ok := ch.(*ast.CallExpr); ok {
				if sel, ok := call.Fun.(*ast.SelectorExpr); ok {
					if id, ok := sel.X.(*ast.Ident); ok && id.Name == "time" && sel.Sel.Name == "After" {
						ch = r.call("After", call.Args...)
						r.timeUsed = true
					}
				}
			}
			chans = append(chans, ch)
			bodies = append(bodies, cc.Body)
		}
		if hasDef {
			if len(chans) != 1 {
				fail("%s: select with default and %d cases is not supported", r.fset.Position(s.Pos()), len(chans))
			}
			return &ast.IfStmt{Cond: r.call("Poll", chans[0]), Body: &ast.BlockStmt{List: bodies[0]}, Else: &ast.BlockStmt{List: def}}
		}
		sw := &ast.SwitchStmt{Tag: r.call("Select", chans...), Body: &ast.BlockStmt{}}
		for i, b := range bodies {
			sw.Body.List = append(sw.Body.List, &ast.CaseClause{List: []ast.Expr{&ast.BasicLit{Kind: token.INT, Value: strconv.Itoa(i)}}, Body: b})
		}
		return sw
	case *ast.ExprStmt:
		if ch, ok := recvChan(s.X); ok {
			return &ast.ExprStmt{X: r.call("Wait", ch)}
		}
		// time.Sleep(d) as a statement becomes a scheduler yield (no wall-clock time passes in an execution)
		if call, ok := s.X.(*ast.CallExpr); ok {
			if sel, ok := call.Fun.(*ast.SelectorExpr); ok {
				if id, ok := sel.X.(*ast.Ident); ok && id.Name == "time" && sel.Sel.Name == "Sleep" && r.sleeps {
					r.timeUsed = true
					return &ast.ExprStmt{X: r.call("Sleep", call.Args...)}
				}
			}
		}
		r.exprs(s.X)
		return s
	case *ast.DeferStmt:
		if id, ok := s.Call.Fun.(*ast.Ident); ok && id.Name == "close" && len(s.Call.Args) == 1 {
			s.Call = r.call("Close", s.Call.Args[0])
			return s
		}
		r.exprs(s.Call)
		return s
	case *ast.SendStmt:
		fail("%s: channel send is not supported by the scheduler rewriter", r.fset.Position(s.Pos()))
	case *ast.BlockStmt:
		r.block(s)
	case *ast.IfStmt:
		if s.Init != nil {
			s.Init = r.stmt(s.Init)
		}
		r.exprs(s.Cond)
		r.block(s.Body)
		if s.Else != nil {
			s.Else = r.stmt(s.Else)
		}
	case *ast.ForStmt:
		r.block(s.Body)
	case *ast.RangeStmt:
		r.block(s.Body)
	case *ast.SwitchStmt:
		r.block(s.Body)
	case *ast.TypeSwitchStmt:
		r.block(s.Body)
	case *ast.CaseClause:
		for i, bs := range s.Body {
			s.Body[i] = r.stmt(bs)
		}
	case *ast.AssignStmt:
		for _, e := range s.Rhs {
			if _, ok := recvChan(e); ok {
				fail("%s: receive with assignment is not supported", r.fset.Position(s.Pos()))
			}
			r.exprs(e)
		}
	case *ast.ReturnStmt:
		for _, e := range s.Results {
			r.exprs(e)
		}
	case *ast.LabeledStmt:
		s.Stmt = r.stmt(s.Stmt)
	}
	return s
}

// exprs rewrites function literals nested in expressions and close(ch) calls.
func (r *rewriter) exprs(e ast.Expr) {
	ast.Inspect(e, func(n ast.Node) bool {
		switch n := n.(type) {
		case *ast.FuncLit:
			r.block(n.Body)
			return false
		case *ast.CallExpr:
			if id, ok := n.Fun.(*ast.Ident); ok && id.Name == "close" && len(n.Args) == 1 {
				n.Fun = &ast.SelectorExpr{X: ast.NewIdent("vsched"), Sel: ast.NewIdent("Close")}
				r.used = true
			}
		}
		return true
	})
}
