#!/bin/bash
# usage: tools/confirm_seed.sh <Cxx> <A|B>   (reads /tmp/seed/out/Cxx/X, confirms in a scratch worktree of /repo HEAD)
# Confirms: patch applies; full suite passes with patch; demo fails with patch; demo passes without patch.
set -u
export GOFLAGS=-mod=mod GOPROXY=off GOSUMDB=off GOTOOLCHAIN=local
id=$1; x=$2; src=/tmp/seed/out/$id/$x
wt=/tmp/scratch/confirm-$id-$x
mkdir -p /tmp/scratch; rm -rf $wt; git -C /repo worktree prune
git -C /repo worktree add --detach $wt HEAD >/dev/null 2>&1 || { echo "worktree failed"; exit 2; }
cleanup() { git -C /repo worktree remove --force $wt >/dev/null 2>&1; }
trap cleanup EXIT
cd $wt
demo=$(ls $src/*_test.go 2>/dev/null | head -1)
[ -z "$demo" ] && { echo "RESULT $id/$x: no demo test"; exit 3; }
pkg=$(grep -m1 '^package ' $demo | awk '{print $2}')
case $pkg in
 ugo_test|ugo) dir=. ;;
 encoder_test|encoder) dir=encoder ;;
 json_test|json) dir=stdlib/json ;;
 strings_test|strings) dir=stdlib/strings ;;
 time_test|time) dir=stdlib/time ;;
 fmt_test|fmt) dir=stdlib/fmt ;;
 parser_test|parser) dir=parser ;;
 main) dir=cmd/ugo ;;
 *) echo "RESULT $id/$x: unknown package $pkg"; exit 3 ;;
esac
if ! git apply --check $src/patch.diff 2>/dev/null; then echo "RESULT $id/$x: patch does not apply to current HEAD"; exit 4; fi
git apply $src/patch.diff
go build ./... || { echo "RESULT $id/$x: does not build"; exit 5; }
suite=$(go test -vet=off -count=1 ./... 2>&1 | grep -v "no test files" | grep -v "^ok" | head -5)
cp $demo $dir/zz_seed_demo_test.go
go test -vet=off -count=1 ./$dir/ >/tmp/scratch/demo-with-$id-$x.log 2>&1; with=$?
git apply -R $src/patch.diff
go test -vet=off -count=1 ./$dir/ >/tmp/scratch/demo-without-$id-$x.log 2>&1; without=$?
rm -f $dir/zz_seed_demo_test.go
if [ -n "$suite" ]; then echo "RESULT $id/$x: SUITE FAILS with patch: $suite"; exit 6; fi
echo "RESULT $id/$x: suite=pass demo_with_patch_exit=$with demo_without_patch_exit=$without pkgdir=$dir"
[ $with -ne 0 ] && [ $without -eq 0 ] && exit 0
exit 7
