#!/usr/bin/env python3
"""Generates /verif/MANIFEST.json from the table below (one row per claimed property)."""
import json, os
root = os.path.dirname(os.path.dirname(os.path.abspath(__file__)))
CHECKS = [
 dict(id="C10", level="model_checking", engine="hist + gen (explicit-state search over Eval sessions)", design="§5 C10",
      technique="explicit-state exploration: every statement sequence up to a length over a 37-statement alphabet, every way of cutting it into fragments, differential oracle against a fresh Eval given the concatenation",
      text="Every sequence of <= 3 (thorough 4) statements over an alphabet built to interact (declarations of every form, closures created before/after writes to their captured variables, slot-re-using blocks/loops/try, const/iota groups, imports of a counting source module and a mutated builtin module, builtin shadowing, println, runtime and compile errors) is cut in all 2^(n-1) ways; each fragment's value/error, the cumulative printed output and, after the last fragment, a probe of every declared name and closure are compared with a fresh Eval evaluating the concatenation as one script. Optimizer on and off.",
      note="A fragment ending in a non-expression statement has no defined result value (Eval returns the last value on the stack); values are compared for fragments ending in an expression statement. Compile-error positions are not compared."),
 dict(id="C07", level="model_checking", engine="hist (explicit-state search over a real VM)", design="§5 C07",
      technique="explicit-state exploration of operation histories on one real VM (every sequence up to a depth), differential oracle against a new VM, structural fingerprint of every Bytecode after every transition",
      text="Operations: Run of 17 scripts chosen one per termination kind (incl. abort, propagated and recovered Go panics and value-stack overflow while outer frames are inside try, frame overflow, error in finally, module mutation, un-released Invoker), Clear, SetRecover on/off. Every history of <= 2 (thorough 3) operations, followed by Clear or by nothing, is followed by each of 27 observed runs; the outcome must equal the outcome on a new VM and no Bytecode may be modified. The VM's private state is read by reflection to count distinct states and to show that residue existed.",
      note="Re-running the same Bytecode on the same VM without Clear/SetBytecode keeps its module cache by design and is not compared. The unspecified map iteration order is never observed."),
 dict(id="C06", level="fault_enumeration", engine="gen (fault-state enumeration on the real VM)", design="§5 C06",
      technique="exhaustive enumeration of failure kind x VM state at the instant of failure (value-stack fill, call depth) x handler context; invariant oracle plus follow-up probes on the same VM",
      text="19 failure kinds (ordinary runtime errors, throw, Go callbacks panicking with string/error/runtime error, callback panicking after re-entering the VM through an Invoker, objects whose methods panic, unbounded recursion, recursion with 200 locals) and literals overflowing the value stack, raised with the value stack filled to {0, 2040..2047} (thorough {0, 1, 1000, 2020..2047}) slots and at call depths {1, 1022, 1023} (thorough {1, 2, 1019..1023}) in 9 handler contexts (none, try-catch, try-finally, in catch, in finally, handler in a caller, callback child VM with and without enclosing try, module body). No panic escapes Run, Run returns value xor error, ordinary errors inside try-catch are caught, the same script gives the same outcome again on the same VM and five probe scripts (incl. uncaught errors at depth 0 and 5) give their known results afterwards.",
      note="Stack overflow is exempt from 'caught by the nearest handler' (documented). Custom Object implementations beyond the panicking one are not covered."),
 dict(id="C13", level="exploration", engine="gen (scope model + bytecode scan + call recorders)", design="§5 C13",
      technique="bounded exhaustive enumeration of scripts x disabled sets x configurations; oracle = generator's scope model, scan of all GETBUILTIN operands and call recorders wrapped around the builtin objects",
      text="For each N in {int, len, append, printf} and every subset of that alphabet containing N (quick: the singleton): N undeclared or bound by each of the 24 binding forms of C01-G1 (3 of which hide the binding) x 17 use sites x use expressions with and without a literal const in scope; a source module referencing N imported from 8 kinds of site; Eval sessions of <= 3 steps mixing fragments that use N, declare N, and the embedder's DisableBuiltin call. Optimizer on, off and at budget 1. An undeclared reference must be a compile error; Bytecode must contain no GETBUILTIN of a disabled builtin; neither compiling (optimizer's private VM) nor running may call one.",
      note="Trusted: the scope classification of the binding forms (shared with C01-G1)."),
 dict(id="C12", level="model_checking", engine="gen+ref", design="§5 C12",
      technique="bounded exhaustive enumeration of import graphs x import sites against the executable reference model; every model trace is replayed on the implementation under 8 configurations",
      text="Every directed graph on 2 (thorough 3) source modules incl. self-imports and all cycles, with main importing two modules through every pair of 9 import sites (top level, function called 0/1/2 times, loop, false/true condition, Go callback on a child VM pooled and unpooled, closure returned by another module). The reference interpreter gives body log, shared state and value; the VM must agree with optimizer on/off, plain and after encode/decode; every cyclic graph and unknown module must be a compile error; builtin-module values (10 kinds of mutation) must be invisible to a second VM, to the host and to a later compile.",
      note="Trusted: internal/ref. State is observed through closures only (whether a returned map is copied when cached is not specified)."),
 dict(id="C16", level="model_checking", engine="gen (constructed expectation)", design="§5 C16",
      technique="bounded exhaustive program enumeration against a constructed model: the generator knows the line of every call statement and of the failing statement; every program is run under all configurations and its stack trace compared with the model",
      text="Call chains of depth 0..4 (thorough 0..6) x 6 failure kinds x 4 call forms x 4 layouts x 3 statement positions x 4 definition styles (top level, nested in the caller, imported source module, failure while the module body runs), plus failing statements at the very first byte of main and of a module; thorough also mixes call forms per level. Each program runs under optimizer on/off x plain/encode-decode x k = 0, 1, 3 prepended blank lines; StackTrace() (outermost first) must equal the constructed line list shifted by k, every position must name its file and lie inside it.",
      note="Trusted: the generator's line bookkeeping. Columns are not compared."),
 dict(id="C04", level="exploration", engine="gen (differential: original vs decoded vs re-decoded)", design="§5 C04",
      technique="bounded exhaustive program enumeration, differential execution of original, once and twice round-tripped bytecode on every program and input",
      text="The C02/C03 corpora and the C11 jump grammar (x 4 inputs), one program per constant kind/value (every varint and length-prefix boundary, NaN/Inf/-0, negative and maximal chars, non-UTF-8 strings, 300 constants, nested functions), and programs importing builtin-module maps with an attribute of every value type (functions nested in containers, several gob-fallback values), the real strings/time/json/fmt modules and source modules are compiled, encoded, decoded (and again): value, probe log, output, globals, error name+message and stack-trace lines/files must be equal, the decoded bytecode must pass the structural verifier, the original must be untouched, and decoding with a mismatching module map must be an error, never a panic.",
      note="Trusted: the harness runner; programs beyond the corpora are not covered."),
 dict(id="C05", level="exploration", engine="gen + inputs + bcv (subprocess, watchdog)", design="§5 C05",
      technique="bounded exhaustive input enumeration (all lexeme strings and byte strings up to a length, all single-lexeme mutations of seeds, all fragment pairs, capacity boundary programs) with a structural bytecode verifier as oracle",
      text="Every string of <= 3 lexemes over 48 lexemes and <= 4 over 20 (thorough 4 / 5), every byte string of length <= 2 (thorough 3), the C02/C03 corpora under 60 option combinations (optimizer budget, tracing, module map, Compile / Eval / imported module), programs at limit-1/limit/limit+1 of every operand width, every single-lexeme deletion/duplication/replacement of 40 seeds, and every ordered pair of 66 fragments through one Eval session are compiled: no panic, no fatal error, return within 10 s, well-formed bytecode on success (operands, targets, indexes in range, NumLocals <= 256), an error beyond a capacity limit.",
      note="Nesting depths beyond 10000 are not explored (the optimizer is polynomial in the depth, which is slowness, not non-termination)."),
 dict(id="C18", level="fault_enumeration", engine="inputs (subprocess, ulimit, allocation meter)", design="§5 C18",
      technique="exhaustive fault enumeration over fixed encodings: every truncation, every single-byte corruption, windowed double-byte corruptions, all short bodies; oracle evaluated on every fault",
      text="Version-2 and version-1 encodings of 7 programs (every constant kind, closures, try tables, 2-file file set, source + builtin modules) and object-level encodings of 18 value kinds (incl. gob-fallback values) are subjected to every truncation, every single-byte corruption (255 values per position), double-byte corruptions in a window and every body of <= 2 (thorough 3) bytes behind both headers, through DecodeBytecodeFrom, Bytecode.UnmarshalBinary, DecodeObject and the type's own UnmarshalBinary. No panic, no fatal error, no hang, allocation <= 256 KiB + 512 x len(input).",
      note="quick uses 22 corruption values for encodings > 700 bytes and skips their double-byte faults (thorough does all). A decoded value, if any, is not run. Known finding KF-C18-1 (encoding/gob's own 10 MiB chunk)."),
 dict(id="C11", level="exploration", engine="gen + v1 down-converter", design="§5 C11",
      technique="bounded exhaustive program enumeration, differential execution of the version-1 encoding (produced by a harness down-converter that is validated by an independent up-converter on every program) against the original bytecode",
      text="Every program of the C03 space (cores <= 2 nodes, thorough 3), of the C02 families and of a dedicated jump grammar (if/else, loops, &&, ||, ?:, try; x 4 inputs) is compiled, converted to version 1, encoded under a version-1 header, decoded by the implementation and run; value, probe log, error name+message and stack-trace lines must equal the original's.",
      note="Trusted: the harness down-converter (self-checked by up(down(p)) == p on every program). Programs with positions beyond 16 bits are outside version 1 and skipped (counted)."),
 dict(id="C19", level="exploration", engine="inputs (subprocess, ulimit, call timeout)", design="§5 C19",
      technique="bounded exhaustive input enumeration: every callable x every argument tuple up to a length over a boundary-value pool x three call routes, in resumable worker processes with crash and hang attribution",
      text="All builtin functions, error New constructors, every function of the fmt/json/strings/time modules and every method name of time values are called with every argument tuple of length 0..3 (thorough 0..4) over a 26-value boundary pool through Object.Call, CallEx with a VM (also with the arguments split into positional and variadic part) and a script call on a VM without recovery. A panic, a fatal runtime error under a 2 GiB address-space limit, a call that does not return within 20 s, or (nil, nil) is a violation.",
      note="time.Sleep with more than 1 ms is excluded (blocking is its specification); the compiler-internal :makeArray is excluded; sizes that merely exhaust this sandbox's memory are not in the pool (uGO documents that it has no allocation limit), 1<<62 is."),
 dict(id="C17", level="exploration", engine="inputs (differential vs encoding/json)", design="§5 C17",
      technique="bounded exhaustive input enumeration (all byte strings up to a length over a reduced alphabet, all token sequences, all nested values over a leaf pool), differential against encoding/json",
      text="Every uGO value of depth <= 2 with <= 2 elements over a 50-leaf pool (boundary numbers, NaN/Inf, HTML/U+2028/invalid-UTF-8/control strings, bytes of every base64 size class up to 1000 bytes, chars, undefined) in array/map/syncMap plus 24 non-plain objects is marshalled: output must be valid JSON, equal to encoding/json for plain values, and round-trip through Unmarshal. Every byte string of length <= 5 (thorough 7) over a 16-symbol JSON alphabet, every string of <= 6 bytes over the U+2028/U+2029 bytes and every sequence of <= 3 (thorough 4) tokens from a 33-token alphabet is given to Valid, Unmarshal, Compact (both escape modes) and Indent (3 prefix/indent pairs) and compared with encoding/json.",
      note="Trusted: encoding/json of the installed toolchain. The \\b/\\f vs \\u0008/\\u000c spelling (a Go release difference) and nil vs empty containers are treated as equal."),
 dict(id="C20", level="exploration", engine="inputs", design="§5 C20",
      technique="bounded exhaustive input enumeration (all nested values over leaf pools on both sides of the boundary), round-trip oracles",
      text="Every uGO value of depth <= 2 (thorough 3) with <= 2 elements over a 28-leaf pool round-trips through ToInterface/ToObject(/Alt); every Go value of the same shapes over the canonical counterparts (incl. nil slices/maps) round-trips the other way; every other integer/float width at its boundaries keeps its numeric value; every unsupported Go type alone and at every position of nested containers is an error; registry types incl. nil and unregistered pointers never panic.",
      note="nil and empty containers are interchangeable (property text). Values outside the pools are not covered."),
 dict(id="C01", level="exploration", engine="gen (differential)", design="§5 C01",
      technique="bounded exhaustive program enumeration, differential execution (optimizer off vs on at several budgets) on every program",
      text="Four families are enumerated completely: G1 every binding form that can shadow a builtin (24 forms incl. for-in key/value, catch identifier, params, globals, enclosing functions, hidden bindings) x 14 evaluable builtin names x 17 use sites x use expressions, with and without a literal const in scope; G2 every operator tree of depth 1 over a 24-literal pool (thorough: depth 2 over 11 literals) and every evaluable builtin on every literal, in 13 contexts with side-effect probes; G3 pairs of foldable expressions plus an imported module under OptimizerLimit 1..5 and default; G4 const/iota groups used in folded expressions. Both compilations are run on equal inputs and value, probe log, output, globals and error name+message are compared; an optimizer-only refusal must carry the runtime error of a constant sub-expression.",
      note="Trusted: the unoptimized pipeline as reference (its conformance is C02's business). Programs outside the four grammars are not covered."),
 dict(id="C02", level="model_checking", engine="gen+ref", design="§5 C02",
      technique="bounded exhaustive program enumeration against an executable reference model (definitional interpreter); every model trace is replayed on the implementation",
      text="Eight families (scope, closure, call binding, evaluation order, loops, tail calls incl. depth 5000, const/iota, destructuring) are enumerated completely up to their bounds; the reference interpreter written from the documentation gives value, ordered probe log and error for every program and the VM (optimizer on and off) must agree on each.",
      note="Trusted: internal/ref. The numeric tower beyond int, map iteration order and programs beyond the bounds are not covered."),
 dict(id="C03", level="model_checking", engine="gen+ref", design="§5 C03",
      technique="bounded exhaustive program enumeration (Prefix x Context x Core) against an executable reference model (definitional interpreter with completion records); every model trace is replayed on the implementation",
      text="Every try/catch/finally/loop statement of <= 3 nodes (thorough: <= 4, plus the flat space of 5 nodes) over a 8-leaf exit alphabet is placed in 12 contexts and after 6 (thorough 12) histories of already completed try statements; the reference interpreter's log, value and error are compared with the VM's (optimizer on and off) for every program. The space is enumerated completely; the reference is the model and all of its traces are validated against the implementation.",
      note="Trusted: internal/ref (ECMAScript-style completion semantics as documented in docs/error-handling.md). Stack overflow and programs beyond the size bound are not covered."),
 dict(id="C15", level="exploration", engine="inputs", design="§5 C15",
      technique="bounded exhaustive enumeration: full cross product of a boundary-value pool x all operators, two evaluation routes",
      text="Every ordered pair of a 69-value (thorough: 119) boundary pool is evaluated under all 17 binary operators and every value under the 4 unary operators, both through Object.Equal/BinaryOp and through a VM without recovery; the algebraic laws are checked on every pair and int/uint/float/char/bool arithmetic is compared with a Go reference written from docs/operators.md. Exhaustive over the pool; nothing is sampled.",
      note="Trusted: the Go reference table transcribed from docs/operators.md; values outside the pool are not covered."),
]
CHECKS.sort(key=lambda c: c["id"])
NOT_APPLICABLE = []
_claimed = {c["id"] for c in CHECKS}
for i in range(1, 21):
    pid = "C%02d" % i
    if pid not in _claimed and not any(n["property_id"] == pid for n in NOT_APPLICABLE):
        NOT_APPLICABLE.append({"property_id": pid, "reason": "not claimed yet: its bounded-exhaustive check (DESIGN.md §5) is still under construction; model checking does apply to it"})
m = {
 "version": 1,
 "setup_cmd": "./build.sh",
 "hooks": {
  "guard": "verif",
  "enable": "go build -tags verif -overlay .work/overlay.json (generated by overlay/mkoverlay.py on every run from /repo's working tree; the overlay only adds files / rewrites imports of copies, /repo itself carries no hook code)",
  "baseline_off_cmd": "cd /repo && GOFLAGS=-mod=mod GOPROXY=off GOSUMDB=off GOTOOLCHAIN=local go test -json -vet=off -count=1 -timeout 25m ./...",
  "source_commits": [],
  "add_only": True,
 },
 "engines": [
  {"name": "fw", "path": "internal/fw", "serves_properties": [c["id"] for c in CHECKS], "kind_free_text": "orchestrator: shards an enumerated space over 16 worker processes, merges, matches known findings, writes evidence and replay files"},
 ],
 "checks": [],
 "notes": "All checks are bounded-exhaustive enumerations evaluated on the real implementation built from /repo's working tree; see DESIGN.md.",
 "not_applicable": NOT_APPLICABLE,
}
for c in CHECKS:
    m["checks"].append({
        "property_id": c["id"],
        "quick_cmd": "./run.sh %s quick" % c["id"],
        "thorough_cmd": "./run.sh %s thorough" % c["id"],
        "evidence_file": "/verif/evidence/%s.json" % c["id"],
        "replay_cmd_template": "./run.sh %s quick --replay {path}" % c["id"],
        "engine": c["engine"],
        "level_claimed": {"category": c["level"], "text": c["text"], "design_ref": c["design"]},
        "level_note": c["note"],
        "technique": c["technique"],
    })
json.dump(m, open(os.path.join(root, "MANIFEST.json"), "w"), indent=1)
print("wrote MANIFEST.json with", len(CHECKS), "checks")
