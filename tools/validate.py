#!/usr/bin/env python3-vt
"""Validates MANIFEST.json and every evidence file against the schemas in /root/.vp."""
import json, glob, sys, jsonschema
bad = 0
m = json.load(open('/verif/MANIFEST.json'))
try:
    jsonschema.validate(m, json.load(open('/root/.vp/MANIFEST.schema.json')))
except Exception as e:
    print("MANIFEST:", str(e)[:300]); bad += 1
es = json.load(open('/root/.vp/EVIDENCE.schema.json'))
for f in sorted(glob.glob('/verif/evidence/*.json')):
    d = json.load(open(f))
    try:
        jsonschema.validate(d, es)
    except Exception as e:
        print(f, str(e)[:300]); bad += 1
    c = d['coverage']
    if not c.get('samples'):
        print(f, "no samples"); bad += 1
    if d.get('violations'):
        print(f, "violations:", d['violations'])
print("problems:", bad)
sys.exit(1 if bad else 0)
