#!/bin/bash
# Builds bin/vcheck against /repo's working tree. The overlay only ADDS files (tag: verif).
set -eu
cd "$(dirname "$0")"
export GOFLAGS=-mod=mod GOPROXY=off GOSUMDB=off GOTOOLCHAIN=local
mkdir -p bin .work
cp /repo/go.sum go.sum 2>/dev/null || true
python3 overlay/mkoverlay.py > .work/overlay.json
go build -tags verif -overlay .work/overlay.json -o bin/vcheck ./cmd/vcheck
