#!/bin/bash
# Builds the check binaries against /repo's working tree.
#   bin/vcheck  all checks except C08/C09; the overlay only ADDS files (tag: verif).
#   bin/vsched  C08/C09: /repo's files that use sync, sync/atomic, goroutines or channels are replaced IN THE BUILD
#               (overlay; /repo untouched) by copies instrumented by tools/rewrite from the current working tree, and the
#               scheduler shims of /verif/shim are added as virtual packages (tags: verif vsched).
set -eu
cd "$(dirname "$0")"
export GOFLAGS=-mod=mod GOPROXY=off GOSUMDB=off GOTOOLCHAIN=local
mkdir -p bin .work
cp /repo/go.sum go.sum 2>/dev/null || true
what="${1:-all}"
if [ "$what" = all ] || [ "$what" = vcheck ]; then
  python3 overlay/mkoverlay.py > .work/overlay.json
  go build -tags verif -overlay .work/overlay.json -o bin/vcheck ./cmd/vcheck
fi
if [ "$what" = all ] || [ "$what" = vsched ]; then
  go build -o bin/rewrite ./tools/rewrite
  python3 tools/mksched.py > .work/sched.json
  go build -tags "verif vsched" -overlay .work/sched.json -o bin/vsched ./cmd/vsched
  # the ugo command with the same overlay, its main() replaced by the harness of shim/cmdharness (C09 family cmd-ugo)
  here="$PWD"
  (cd /repo && go build -tags "verif vsched" -overlay "$here/.work/schedcmd.json" -o "$here/bin/vsched-cmd" ./cmd/ugo)
fi
if [ "$what" = all ] || [ "$what" = vsched ] || [ "$what" = vrace ]; then
  # race pass of C08: plain build of /repo's working tree with the race detector
  python3 overlay/mkoverlay.py > .work/overlay.json
  go build -race -tags "verif vrace" -overlay .work/overlay.json -o bin/vrace ./cmd/vrace
fi
