// Package sync is the scheduler-aware stand-in for the standard sync package.
// The instrumented copies of the repository's files import it under the name
// "sync" (only the import path is rewritten). Outside a controlled execution
// every operation is the real one.
package sync

import (
	gosync "sync"

	"github.com/ozanh/ugo/vshim/vsched"
)

// Locker is sync.Locker.
type Locker = gosync.Locker

// Mutex is a mutual exclusion lock.
type Mutex struct {
	real gosync.Mutex
}

// Lock locks m.
func (m *Mutex) Lock() {
	if vsched.InExec() {
		vsched.Lock(m)
		return
	}
	if vsched.Teardown() {
		return
	}
	m.real.Lock()
}

// Unlock unlocks m.
func (m *Mutex) Unlock() {
	if vsched.InExec() {
		vsched.Unlock(m)
		return
	}
	if vsched.Teardown() {
		return
	}
	m.real.Unlock()
}

// RWMutex is a reader/writer mutual exclusion lock.
type RWMutex struct {
	real gosync.RWMutex
}

// Lock locks rw for writing.
func (rw *RWMutex) Lock() {
	if vsched.InExec() {
		vsched.Lock(rw)
		return
	}
	if vsched.Teardown() {
		return
	}
	rw.real.Lock()
}

// Unlock unlocks rw for writing.
func (rw *RWMutex) Unlock() {
	if vsched.InExec() {
		vsched.Unlock(rw)
		return
	}
	if vsched.Teardown() {
		return
	}
	rw.real.Unlock()
}

// RLock locks rw for reading.
func (rw *RWMutex) RLock() {
	if vsched.InExec() {
		vsched.RLock(rw)
		return
	}
	if vsched.Teardown() {
		return
	}
	rw.real.RLock()
}

// RUnlock undoes a single RLock call.
func (rw *RWMutex) RUnlock() {
	if vsched.InExec() {
		vsched.RUnlock(rw)
		return
	}
	if vsched.Teardown() {
		return
	}
	rw.real.RUnlock()
}

// Pool is a set of temporary objects. Inside a controlled execution it is an
// explicit free list whose Get is a choice between a recycled object and a new
// one (the real sync.Pool may do either); the list does not outlive the execution.
type Pool struct {
	real gosync.Pool
	New  func() any
}

// Get selects an item from the pool or calls New.
func (p *Pool) Get() any {
	if vsched.InExec() {
		if x, ok := vsched.PoolGet(p); ok {
			return x
		}
		if p.New != nil {
			return p.New()
		}
		return nil
	}
	if vsched.Teardown() {
		if p.New != nil {
			return p.New()
		}
		return nil
	}
	if x := p.real.Get(); x != nil {
		return x
	}
	if p.New != nil {
		return p.New()
	}
	return nil
}

// Put adds x to the pool.
func (p *Pool) Put(x any) {
	if vsched.InExec() {
		vsched.PoolPut(p, x)
		return
	}
	if vsched.Teardown() {
		return
	}
	p.real.Put(x)
}

// The remaining types are the real ones (not scheduling points).
type (
	WaitGroup = gosync.WaitGroup
	Once      = gosync.Once
	Map       = gosync.Map
	Cond      = gosync.Cond
)
