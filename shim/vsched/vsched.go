// Package vsched is a controlled scheduler for real goroutines: exactly one
// registered thread runs at a time; every operation of the sync/atomic shims,
// every rewritten channel operation and every goroutine spawn is a scheduling
// point at which the explorer decides which enabled thread continues. It is
// injected into the ozanh/ugo module by `go build -overlay` (virtual package
// github.com/ozanh/ugo/vshim/vsched) so that both the instrumented copies of
// the repository's files and the harness can import it.
//
// Exploration is stateless depth-first search over choice sequences with a
// preemption bound (CHESS). Outside an execution every operation is a plain
// pass-through.
package vsched

import (
	"fmt"
	"reflect"
	"strings"
	"sync"
	"time"
)

// Kind of a scheduling point.
type Kind uint8

// Kinds of operations.
const (
	KStart Kind = iota
	KLock
	KUnlock
	KRLock
	KRUnlock
	KLoad
	KStore
	KPoolGet
	KPoolPut
	KChanWait
	KSelect
	KPoll
	KClose
	KSpawn
	KStep
	KExit
	KNote
	KTimer
)

var kindNames = [...]string{"start", "lock", "unlock", "rlock", "runlock", "load", "store", "poolget", "poolput", "chanwait", "select", "poll", "close", "spawn", "step", "exit", "note", "timer"}

func (k Kind) String() string { return kindNames[k] }

// Op is the pending operation of a parked thread.
type Op struct {
	Kind  Kind
	Obj   any    // identity of the object (pointer) or nil
	Label string // for KStep and diagnostics
	Chans []any  // for KSelect
	Value int64  // for KStore
}

type thread struct {
	id      int
	name    string
	wake    chan int // value: choice for data choices / select case
	pending Op
	done    bool
	polls   int // consecutive polls (loads) since last switch
	fin     chan struct{}
}

// Event is one executed scheduling point.
type Event struct {
	Thread int
	Kind   Kind
	Obj    int // per-execution object number (0 = none)
	Label  string
	Value  int64
}

func (e Event) String() string {
	s := fmt.Sprintf("T%d:%s", e.Thread, e.Kind)
	if e.Obj != 0 {
		s += fmt.Sprintf("#%d", e.Obj)
	}
	if e.Label != "" {
		s += "(" + e.Label + ")"
	}
	if e.Kind == KStore {
		s += fmt.Sprintf("=%d", e.Value)
	}
	return s
}

// PointRec records one decision point of an execution.
type PointRec struct {
	Enabled   []int // alternatives in canonical order (thread ids; a thread may appear several times for data choices)
	Variant   []int // variant number for each alternative (select case / data choice)
	Chosen    int
	Running   int   // thread that was running before the point (-1 none)
	RunningOK bool  // the running thread is among the enabled alternatives
	FreeYield bool  // switching away here is not a preemption (fair yield / the running thread blocked or exited)
	NEvents   int   // number of events logged before this point
	RunKind   Kind  // pending operation of the running thread (valid when RunningOK)
	Extra     []int // extra deviation cost of each alternative (an unfair choice, e.g. a timer firing although another case of the select is ready)
}

// Exec is the state of one execution.
type Exec struct {
	threads  []*thread
	current  *thread
	toSched  chan struct{}
	prefix   []int
	Points   []PointRec
	Events   []Event
	objs     map[any]int
	locks    map[any]*lockState
	pools    map[any][]any
	teardown bool
	Quantum  int
	Horizon  int // stop after this many points
	Stop     func(e *Exec) bool
	Deadlock bool
	Cut      bool // horizon reached
	Diverged string
	// Stuck names a thread that ran for StepTimeout of wall-clock time without reaching any scheduling point: it loops
	// without synchronising with anybody (for C09: it never looks at the abort flag). The thread cannot be stopped; the
	// execution is abandoned as it is and the process should exit after reporting.
	Stuck   string
	Panic   string // a thread of the execution panicked (a finding about the code, not about the harness)
	atomics map[any]int64
	Sigs    map[uint64]bool
	owner   map[any]int // first thread that operated on an object
	nShared int         // objects operated on by more than one thread
}

// SharedObjects returns the number of synchronisation objects that more than one thread operated on.
func (e *Exec) SharedObjects() int { return e.nShared }

// NoteStore lets the atomic shim tell the execution the value it stored (for state signatures).
func NoteStore(obj any, v int64) {
	if e := cur(); e != nil && e.atomics != nil {
		e.atomics[obj] = v
	}
}

func mix(h uint64, v uint64) uint64 {
	h ^= v + 0x9e3779b97f4a7c15 + (h << 6) + (h >> 2)
	h *= 0xff51afd7ed558ccd
	return h ^ (h >> 33)
}

// signature is a hash of the scheduler-visible state: pending operation of every thread, lock owners, values of
// the atomics, sizes of the pools (unordered collections are combined commutatively).
func (e *Exec) signature() uint64 {
	h := uint64(1469598103934665603)
	for _, t := range e.threads {
		if t.done {
			h = mix(h, 0xdead)
			continue
		}
		h = mix(h, uint64(t.id)<<40|uint64(t.pending.Kind)<<32|uint64(e.objID(t.pending.Obj)))
	}
	var sum uint64
	for o, ls := range e.locks {
		if ls.writer || ls.readers > 0 {
			w := uint64(0)
			if ls.writer {
				w = 1
			}
			sum += mix(1, uint64(e.objID(o))<<20|w<<16|uint64(ls.readers))
		}
	}
	for o, v := range e.atomics {
		sum += mix(2, uint64(e.objID(o))<<32^uint64(v))
	}
	for o, f := range e.pools {
		sum += mix(3, uint64(e.objID(o))<<20|uint64(len(f)))
	}
	return mix(h, sum)
}

type lockState struct {
	writer  bool
	readers int
}

var (
	mu     sync.Mutex
	active *Exec
)

// Active reports whether an execution is in progress and the caller is the running thread.
func cur() *Exec {
	return active
}

// ObjID returns the per-execution number of an object.
func (e *Exec) objID(o any) int {
	if o == nil {
		return 0
	}
	if id, ok := e.objs[o]; ok {
		return id
	}
	id := len(e.objs) + 1
	e.objs[o] = id
	return id
}

// Go starts f as a new thread of the current execution (or as a plain goroutine outside one).
func Go(name string, f func()) {
	e := cur()
	if e == nil {
		go f()
		return
	}
	if e.teardown {
		// threads are unwound one at a time during teardown: run the body inline
		func() {
			defer func() { _ = recover() }()
			f()
		}()
		return
	}
	t := &thread{id: len(e.threads), name: name, wake: make(chan int), fin: make(chan struct{})}
	t.pending = Op{Kind: KStart, Label: name}
	e.threads = append(e.threads, t)
	if e.current != nil {
		e.Events = append(e.Events, Event{Thread: e.current.id, Kind: KSpawn, Label: name})
	}
	go func() {
		defer close(t.fin)
		v := <-t.wake
		if v == -1 && e.teardown {
			t.done = true
			return
		}
		defer func() {
			if r := recover(); r != nil {
				if !e.teardown {
					e.Panic = fmt.Sprintf("thread %s panicked: %v", t.name, r)
				}
			}
			t.done = true
			t.pending = Op{Kind: KExit}
			if !e.teardown {
				e.toSched <- struct{}{}
			}
		}()
		f()
	}()
}

// Note appends a harness observation to the event log of the running thread (not a scheduling point).
func Note(label string, value int64) {
	e := cur()
	if e == nil || e.teardown || e.current == nil {
		return
	}
	e.Events = append(e.Events, Event{Thread: e.current.id, Kind: KNote, Label: label, Value: value})
}

// Timer is the scheduling point of a timer channel in a select: it may fire at any time. It is counted as a
// poll for fairness (a retry loop around it must yield).
var timerCh = func() chan struct{} { c := make(chan struct{}); close(c); return c }()

// Sleep stands in for a time.Sleep statement of rewritten code: inside an execution it is a yield that counts
// as a poll (so a sleep-and-check loop must let other threads run) and no wall-clock time passes.
func Sleep(d time.Duration) {
	if InExec() {
		Point(Op{Kind: KStep, Label: "sleep"})
		return
	}
	if Teardown() {
		return
	}
	time.Sleep(d)
}

// After stands in for time.After inside rewritten code: an always-ready channel inside an execution.
func After(d time.Duration) any {
	if InExec() || Teardown() {
		return (<-chan struct{})(timerCh)
	}
	return time.After(d)
}

type teardownPanic struct{}

// Point parks the running thread at a scheduling point and returns the variant chosen for it.
func Point(op Op) int {
	e := cur()
	if e == nil || e.teardown || e.current == nil {
		return -1
	}
	t := e.current
	t.pending = op
	e.toSched <- struct{}{}
	v := <-t.wake
	if e.teardown {
		return -1
	}
	return v
}

// InExec reports whether the caller runs inside a controlled execution.
func InExec() bool {
	e := cur()
	return e != nil && !e.teardown && e.current != nil
}

// Teardown reports whether the execution is being torn down (operations must not block).
func Teardown() bool {
	e := cur()
	return e != nil && e.teardown
}

// Step is an explicit scheduling point of the harness.
func Step(label string) { Point(Op{Kind: KStep, Label: label}) }

// ---- shim entry points -------------------------------------------------------

// Lock / Unlock / RLock / RUnlock model a (RW)mutex identified by obj.
func Lock(obj any)    { Point(Op{Kind: KLock, Obj: obj}) }
func Unlock(obj any)  { Point(Op{Kind: KUnlock, Obj: obj}) }
func RLock(obj any)   { Point(Op{Kind: KRLock, Obj: obj}) }
func RUnlock(obj any) { Point(Op{Kind: KRUnlock, Obj: obj}) }

// Load and Store are scheduling points of an atomic variable.
func Load(obj any)           { Point(Op{Kind: KLoad, Obj: obj}) }
func Store(obj any, v int64) { Point(Op{Kind: KStore, Obj: obj, Value: v}) }

// PoolGet returns a recycled object (second result true) or asks the caller to create one.
func PoolGet(pool any) (any, bool) {
	e := cur()
	if e == nil || e.teardown || e.current == nil {
		return nil, false
	}
	v := Point(Op{Kind: KPoolGet, Obj: pool})
	free := e.pools[pool]
	if v == 1 && len(free) > 0 {
		x := free[len(free)-1]
		e.pools[pool] = free[:len(free)-1]
		return x, true
	}
	return nil, false
}

// PoolPut adds x to the pool's free list.
func PoolPut(pool any, x any) {
	e := cur()
	if e == nil || e.teardown || e.current == nil {
		return
	}
	Point(Op{Kind: KPoolPut, Obj: pool})
	e.pools[pool] = append(e.pools[pool], x)
}

func closed(ch any) bool {
	rv := reflect.ValueOf(ch)
	if rv.Kind() != reflect.Chan || rv.IsNil() {
		return false
	}
	// chosen case 0 with recvOK == false means closed; the channels handled here are close-only signals,
	// so polling with a non-blocking receive does not change their state
	i, _, recvOK := reflect.Select([]reflect.SelectCase{{Dir: reflect.SelectRecv, Chan: rv}, {Dir: reflect.SelectDefault}})
	return i == 0 && !recvOK
}

// Wait blocks until the close-only channel ch is closed (`<-ch`).
func Wait(ch any) {
	if !InExec() {
		if Teardown() {
			return
		}
		reflect.ValueOf(ch).Recv()
		return
	}
	Point(Op{Kind: KChanWait, Obj: chanKey(ch), Chans: []any{ch}})
}

// Select blocks until one of the close-only channels is closed and returns its index.
func Select(chans ...any) int {
	if !InExec() {
		if Teardown() {
			return 0
		}
		cases := make([]reflect.SelectCase, len(chans))
		for i, c := range chans {
			cases[i] = reflect.SelectCase{Dir: reflect.SelectRecv, Chan: reflect.ValueOf(c)}
		}
		i, _, _ := reflect.Select(cases)
		return i
	}
	return Point(Op{Kind: KSelect, Chans: chans})
}

// Poll is a select with a default case: it reports whether ch is closed, after a scheduling point.
func Poll(ch any) bool {
	if InExec() {
		Point(Op{Kind: KPoll, Obj: chanKey(ch)})
	}
	return closed(ch)
}

// Close closes ch after a scheduling point.
func Close(ch any) {
	if InExec() {
		Point(Op{Kind: KClose, Obj: chanKey(ch)})
	}
	reflect.ValueOf(ch).Close()
}

func isTimer(ch any) bool {
	c, ok := ch.(<-chan struct{})
	return ok && c == (<-chan struct{})(timerCh)
}

func chanKey(ch any) any { return reflect.ValueOf(ch).Pointer() }

// ---- execution -----------------------------------------------------------------

// Config of one exploration.
type Config struct {
	// TopMod > 0 splits one exploration into TopMod independent units: unit TopRem explores, below the default
	// execution, only the subtrees whose first deviation is at a point i with i % TopMod == TopRem.
	TopMod, TopRem int
	// Coarse: only the first FineBound preemptions may happen at a poll (atomic load) of the running
	// thread; later ones only at its other operations (locks, stores, pool and channel operations).
	Coarse    bool
	FineBound int
	Quantum   int // consecutive polls of one thread before a free yield
	Horizon   int // maximum number of points of one execution
	Stop      func(e *Exec) bool
}

func (e *Exec) enabled(t *thread) []int {
	if t.done {
		return nil
	}
	op := t.pending
	switch op.Kind {
	case KLock:
		ls := e.locks[op.Obj]
		if ls != nil && (ls.writer || ls.readers > 0) {
			return nil
		}
	case KRLock:
		ls := e.locks[op.Obj]
		if ls != nil && ls.writer {
			return nil
		}
	case KChanWait:
		if !closed(op.Chans[0]) {
			return nil
		}
	case KSelect:
		var vs []int
		for i, c := range op.Chans {
			if closed(c) {
				vs = append(vs, i)
			}
		}
		return vs
	case KPoolGet:
		if len(e.pools[op.Obj]) > 0 {
			return []int{1, 0} // recycled first (what sync.Pool usually does), or a new one
		}
	}
	return []int{0}
}

func (e *Exec) apply(t *thread, variant int) {
	op := t.pending
	switch op.Kind {
	case KLock:
		ls := e.locks[op.Obj]
		if ls == nil {
			ls = &lockState{}
			e.locks[op.Obj] = ls
		}
		ls.writer = true
	case KUnlock:
		if ls := e.locks[op.Obj]; ls != nil {
			ls.writer = false
		}
	case KRLock:
		ls := e.locks[op.Obj]
		if ls == nil {
			ls = &lockState{}
			e.locks[op.Obj] = ls
		}
		ls.readers++
	case KRUnlock:
		if ls := e.locks[op.Obj]; ls != nil && ls.readers > 0 {
			ls.readers--
		}
	}
	if op.Obj != nil {
		if o, ok := e.owner[op.Obj]; !ok {
			e.owner[op.Obj] = t.id
		} else if o >= 0 && o != t.id {
			e.owner[op.Obj] = -1
			e.nShared++
		}
	}
	ev := Event{Thread: t.id, Kind: op.Kind, Obj: e.objID(op.Obj), Label: op.Label, Value: op.Value}
	if op.Kind == KSelect || op.Kind == KPoolGet {
		ev.Value = int64(variant)
	}
	e.Events = append(e.Events, ev)
}

// Run executes body (which must start threads with Go) under the choice prefix.
func Run(cfg Config, prefix []int, body func()) *Exec {
	mu.Lock()
	defer mu.Unlock()
	e := &Exec{toSched: make(chan struct{}), prefix: prefix, objs: map[any]int{}, locks: map[any]*lockState{}, pools: map[any][]any{}, atomics: map[any]int64{}, Sigs: map[uint64]bool{}, owner: map[any]int{},
		Quantum: cfg.Quantum, Horizon: cfg.Horizon, Stop: cfg.Stop}
	active = e
	defer func() { active = nil }()
	// the body runs as thread 0's setup outside any thread: it only registers threads
	body()
	running := -1
	for {
		if e.Diverged != "" || e.Panic != "" {
			break
		}
		type alt struct{ tid, variant, extra int }
		var alts []alt
		all := true
		var runT *thread
		if running >= 0 {
			runT = e.threads[running]
		}
		// canonical order: the running thread first (unless it must yield), then the others round-robin
		order := make([]*thread, 0, len(e.threads))
		mustYield := runT != nil && !runT.done && e.Quantum > 0 && runT.polls >= e.Quantum
		if runT != nil && !mustYield {
			order = append(order, runT)
		}
		// the other threads round-robin, starting after the running one
		for k := 1; k <= len(e.threads); k++ {
			t := e.threads[(running+k+len(e.threads))%len(e.threads)]
			if t != runT {
				order = append(order, t)
			}
		}
		for _, t := range order {
			if !t.done {
				all = false
			}
			vs := e.enabled(t)
			other := false
			if t.pending.Kind == KSelect {
				for _, v := range vs {
					if !isTimer(t.pending.Chans[v]) {
						other = true
					}
				}
			}
			for _, v := range vs {
				x := 0
				if other && isTimer(t.pending.Chans[v]) {
					x = 1
				}
				if t.pending.Kind == KPoolGet && v == 0 && len(vs) > 1 {
					x = 1 // the pool dropped its free object (a collection ran): a deviation from the usual answer
				}
				alts = append(alts, alt{t.id, v, x})
			}
		}
		if runT != nil && mustYield {
			// fair yield: a thread that has polled for a whole quantum runs again only after another
			// thread has taken a step, unless nothing else is enabled
			all = false
			if len(alts) == 0 {
				for _, v := range e.enabled(runT) {
					alts = append(alts, alt{runT.id, v, 0})
				}
			} else {
				// the yield goes to the next thread in round-robin order; handing it to a different
				// thread is a deviation that is paid for like a preemption (otherwise every yield of a
				// polling loop would double the number of schedules)
				first := alts[0].tid
				for i := range alts {
					if alts[i].tid != first {
						alts[i].extra++
					}
				}
			}
		}
		if all {
			break
		}
		if len(alts) == 0 {
			e.Deadlock = true
			break
		}
		if len(e.Points) >= e.Horizon {
			e.Cut = true
			break
		}
		if e.Stop != nil && e.Stop(e) {
			e.Cut = true
			break
		}
		choice := 0
		if len(e.Points) < len(e.prefix) {
			choice = e.prefix[len(e.Points)]
			if choice >= len(alts) {
				e.Diverged = fmt.Sprintf("replay divergence at point %d: choice %d of %d alternatives", len(e.Points), choice, len(alts))
				break
			}
		}
		e.Sigs[e.signature()] = true
		rec := PointRec{Chosen: choice, Running: running, NEvents: len(e.Events)}
		for _, a := range alts {
			rec.Enabled = append(rec.Enabled, a.tid)
			rec.Variant = append(rec.Variant, a.variant)
			rec.Extra = append(rec.Extra, a.extra)
			if a.tid == running {
				rec.RunningOK = true
			}
		}
		rec.FreeYield = mustYield || !rec.RunningOK
		if rec.RunningOK {
			rec.RunKind = runT.pending.Kind
		}
		e.Points = append(e.Points, rec)
		a := alts[choice]
		t := e.threads[a.tid]
		if a.tid != running {
			if runT != nil {
				runT.polls = 0
			}
			t.polls = 0
		}
		if t.pending.Kind == KLoad || (t.pending.Kind == KStep && t.pending.Label == "sleep") || (t.pending.Kind == KSelect && isTimer(t.pending.Chans[a.variant])) {
			t.polls++
		}
		e.apply(t, a.variant)
		running = a.tid
		e.current = t
		t.wake <- a.variant
		select {
		case <-e.toSched:
		case <-time.After(StepTimeout):
			e.Stuck = t.name
			return e
		}
		e.current = nil
	}
	// teardown: unwind the unfinished threads one at a time; no shim operation blocks any more, the abort
	// flag reads as set, threads that never started are dropped
	e.teardown = true
	for i := 0; i < len(e.threads); i++ {
		t := e.threads[i]
		if t.done {
			<-t.fin
			continue
		}
		t.wake <- -1
		select {
		case <-t.fin:
		case <-time.After(20 * time.Second):
			if e.Diverged == "" {
				e.Diverged = fmt.Sprintf("teardown: thread %s did not finish", t.name)
			}
		}
	}
	return e
}

// StepTimeout bounds the wall-clock time a thread may run between two scheduling points (they are microseconds apart
// in the code under test; see Exec.Stuck).
var StepTimeout = 30 * time.Second

// Trace renders the events of an execution.
func (e *Exec) Trace() string {
	parts := make([]string, len(e.Events))
	for i, ev := range e.Events {
		parts[i] = ev.String()
	}
	return strings.Join(parts, " ")
}

// Choices returns the chosen alternative at every point.
func (e *Exec) Choices() []int {
	out := make([]int, len(e.Points))
	for i, p := range e.Points {
		out[i] = p.Chosen
	}
	return out
}

// Stats of an exploration.
type Stats struct {
	Executions  int64
	Points      int64
	MaxPoints   int
	Deadlocks   int64
	Cut         int64
	BoundDone   int
	StateHashes map[uint64]bool
}

// Explore runs the DFS: check is called for every complete execution; it returns false to stop.
// Every execution is compared with the one it branches from: the events and the enabled sets up to the
// branching point must be identical, otherwise the execution is marked Diverged (nondeterminism the
// scheduler does not own) and handed to check like any other.
func Explore(cfg Config, bound int, body func(), check func(e *Exec) bool, stats *Stats, budget func() bool) {
	var rec func(prefix []int, used int, parent *Exec) bool
	rec = func(prefix []int, used int, parent *Exec) bool {
		if budget != nil && !budget() {
			return false
		}
		e := Run(cfg, prefix, body)
		if parent != nil && e.Diverged == "" {
			e.Diverged = divergence(parent, e, len(prefix)-1)
		}
		stats.Executions++
		stats.Points += int64(len(e.Points))
		if len(e.Points) > stats.MaxPoints {
			stats.MaxPoints = len(e.Points)
		}
		if e.Deadlock {
			stats.Deadlocks++
		}
		if e.Cut {
			stats.Cut++
		}
		if stats.StateHashes != nil {
			for k := range e.Sigs {
				stats.StateHashes[k] = true
			}
		}
		if !check(e) {
			return false
		}
		if e.Diverged != "" {
			return true
		}
		// cost of the prefix part is `used`; explore alternatives at later points
		choices := e.Choices()
		for i := len(prefix); i < len(e.Points); i++ {
			p := e.Points[i]
			if parent == nil && cfg.TopMod > 0 && i%cfg.TopMod != cfg.TopRem {
				continue
			}
			for alt := 1; alt < len(p.Enabled); alt++ {
				c := used
				// switching away from a runnable running thread is a preemption; choosing another
				// variant of the same thread (data choice) is free
				if p.RunningOK && !p.FreeYield && p.Enabled[alt] != p.Running {
					c++
					if cfg.Coarse && c > cfg.FineBound && p.RunKind == KLoad {
						continue
					}
				}
				c += p.Extra[alt]
				if c > bound {
					continue
				}
				np := append(append([]int{}, choices[:i]...), alt)
				if !rec(np, c, e) {
					return false
				}
			}
			// the default choice at this point costs nothing (it is the running thread when runnable)
		}
		return true
	}
	rec(nil, 0, nil)
}

// divergence compares execution e with the execution it branches from at point i.
func divergence(parent, e *Exec, i int) string {
	if len(e.Points) <= i || len(parent.Points) <= i {
		return fmt.Sprintf("replay divergence: branching point %d not reached (%d points)", i, len(e.Points))
	}
	for j := 0; j <= i; j++ {
		a, b := parent.Points[j], e.Points[j]
		if len(a.Enabled) != len(b.Enabled) {
			return fmt.Sprintf("replay divergence at point %d: %d alternatives, %d on the first run", j, len(b.Enabled), len(a.Enabled))
		}
		for k := range a.Enabled {
			if a.Enabled[k] != b.Enabled[k] || a.Variant[k] != b.Variant[k] {
				return fmt.Sprintf("replay divergence at point %d: alternatives differ", j)
			}
		}
	}
	n := parent.Points[i].NEvents
	if e.Points[i].NEvents != n {
		return fmt.Sprintf("replay divergence before point %d: %d events, %d on the first run", i, e.Points[i].NEvents, n)
	}
	for j := 0; j < n; j++ {
		if parent.Events[j] != e.Events[j] {
			return fmt.Sprintf("replay divergence at event %d: %s, first run %s", j, e.Events[j], parent.Events[j])
		}
	}
	return ""
}

// Preemptions counts the preemptive context switches of the execution.
func (e *Exec) Preemptions() int {
	n := 0
	for _, p := range e.Points {
		if p.RunningOK && !p.FreeYield && p.Enabled[p.Chosen] != p.Running {
			n++
		}
		n += p.Extra[p.Chosen]
	}
	return n
}

// ThreadName returns the name a thread was started with.
func (e *Exec) ThreadName(id int) string {
	if id >= 0 && id < len(e.threads) {
		return e.threads[id].name
	}
	return "?"
}

// Done reports whether thread id has finished.
func (e *Exec) Done(id int) bool { return id < len(e.threads) && e.threads[id].done }

// NThreads returns the number of threads started so far.
func (e *Exec) NThreads() int { return len(e.threads) }
