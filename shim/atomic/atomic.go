// Package atomic is the scheduler-aware stand-in for sync/atomic (the typed
// integers and Bool). The instrumented copies of the repository's files import
// it under the name "atomic" (only the import path is rewritten). Inside a
// controlled execution every operation is a scheduling point; the value itself
// always lives in the real atomic. While an execution is being torn down loads
// answer "set" (1 / true) so that polling loops such as the VM's abort check end.
package atomic

import (
	goatomic "sync/atomic"

	"github.com/ozanh/ugo/vshim/vsched"
)

// Value and Pointer are not scheduling points (the repository does not use them for signalling).
type Value = goatomic.Value

// Int64 is an atomic int64.
type Int64 struct{ v goatomic.Int64 }

func (x *Int64) Load() int64 {
	if vsched.InExec() {
		vsched.Load(x)
	} else if vsched.Teardown() {
		return 1
	}
	return x.v.Load()
}

func (x *Int64) Store(val int64) {
	if vsched.InExec() {
		vsched.Store(x, val)
		vsched.NoteStore(x, val)
	}
	x.v.Store(val)
}

func (x *Int64) Add(delta int64) int64 {
	if vsched.InExec() {
		vsched.Store(x, x.v.Load()+delta)
		vsched.NoteStore(x, x.v.Load()+delta)
	}
	return x.v.Add(delta)
}

func (x *Int64) CompareAndSwap(old, new int64) bool {
	if vsched.InExec() {
		if x.v.Load() == old {
			vsched.Store(x, new)
			vsched.NoteStore(x, new)
		} else {
			vsched.Load(x)
		}
	}
	return x.v.CompareAndSwap(old, new)
}

func (x *Int64) Swap(new int64) int64 {
	if vsched.InExec() {
		vsched.Store(x, new)
		vsched.NoteStore(x, new)
	}
	return x.v.Swap(new)
}

// Int32 is an atomic int32.
type Int32 struct{ v goatomic.Int32 }

func (x *Int32) Load() int32 {
	if vsched.InExec() {
		vsched.Load(x)
	} else if vsched.Teardown() {
		return 1
	}
	return x.v.Load()
}

func (x *Int32) Store(val int32) {
	if vsched.InExec() {
		vsched.Store(x, int64(val))
		vsched.NoteStore(x, int64(val))
	}
	x.v.Store(val)
}

func (x *Int32) Add(delta int32) int32 {
	if vsched.InExec() {
		vsched.Store(x, int64(x.v.Load()+delta))
		vsched.NoteStore(x, int64(x.v.Load()+delta))
	}
	return x.v.Add(delta)
}

func (x *Int32) CompareAndSwap(old, new int32) bool {
	if vsched.InExec() {
		if x.v.Load() == old {
			vsched.Store(x, int64(new))
			vsched.NoteStore(x, int64(new))
		} else {
			vsched.Load(x)
		}
	}
	return x.v.CompareAndSwap(old, new)
}

func (x *Int32) Swap(new int32) int32 {
	if vsched.InExec() {
		vsched.Store(x, int64(new))
		vsched.NoteStore(x, int64(new))
	}
	return x.v.Swap(new)
}

// Uint32 is an atomic uint32.
type Uint32 struct{ v goatomic.Uint32 }

func (x *Uint32) Load() uint32 {
	if vsched.InExec() {
		vsched.Load(x)
	} else if vsched.Teardown() {
		return 1
	}
	return x.v.Load()
}

func (x *Uint32) Store(val uint32) {
	if vsched.InExec() {
		vsched.Store(x, int64(val))
		vsched.NoteStore(x, int64(val))
	}
	x.v.Store(val)
}

func (x *Uint32) Add(delta uint32) uint32 {
	if vsched.InExec() {
		vsched.Store(x, int64(x.v.Load()+delta))
		vsched.NoteStore(x, int64(x.v.Load()+delta))
	}
	return x.v.Add(delta)
}

func (x *Uint32) CompareAndSwap(old, new uint32) bool {
	if vsched.InExec() {
		if x.v.Load() == old {
			vsched.Store(x, int64(new))
			vsched.NoteStore(x, int64(new))
		} else {
			vsched.Load(x)
		}
	}
	return x.v.CompareAndSwap(old, new)
}

func (x *Uint32) Swap(new uint32) uint32 {
	if vsched.InExec() {
		vsched.Store(x, int64(new))
		vsched.NoteStore(x, int64(new))
	}
	return x.v.Swap(new)
}

// Uint64 is an atomic uint64.
type Uint64 struct{ v goatomic.Uint64 }

func (x *Uint64) Load() uint64 {
	if vsched.InExec() {
		vsched.Load(x)
	} else if vsched.Teardown() {
		return 1
	}
	return x.v.Load()
}

func (x *Uint64) Store(val uint64) {
	if vsched.InExec() {
		vsched.Store(x, int64(val))
		vsched.NoteStore(x, int64(val))
	}
	x.v.Store(val)
}

func (x *Uint64) Add(delta uint64) uint64 {
	if vsched.InExec() {
		vsched.Store(x, int64(x.v.Load()+delta))
		vsched.NoteStore(x, int64(x.v.Load()+delta))
	}
	return x.v.Add(delta)
}

func (x *Uint64) CompareAndSwap(old, new uint64) bool {
	if vsched.InExec() {
		if x.v.Load() == old {
			vsched.Store(x, int64(new))
			vsched.NoteStore(x, int64(new))
		} else {
			vsched.Load(x)
		}
	}
	return x.v.CompareAndSwap(old, new)
}

func (x *Uint64) Swap(new uint64) uint64 {
	if vsched.InExec() {
		vsched.Store(x, int64(new))
		vsched.NoteStore(x, int64(new))
	}
	return x.v.Swap(new)
}

// Bool is an atomic boolean.
type Bool struct{ v goatomic.Bool }

func b2i(b bool) int64 {
	if b {
		return 1
	}
	return 0
}

func (x *Bool) Load() bool {
	if vsched.InExec() {
		vsched.Load(x)
	} else if vsched.Teardown() {
		return true
	}
	return x.v.Load()
}

func (x *Bool) Store(val bool) {
	if vsched.InExec() {
		vsched.Store(x, b2i(val))
		vsched.NoteStore(x, b2i(val))
	}
	x.v.Store(val)
}

func (x *Bool) CompareAndSwap(old, new bool) bool {
	if vsched.InExec() {
		if x.v.Load() == old {
			vsched.Store(x, b2i(new))
			vsched.NoteStore(x, b2i(new))
		} else {
			vsched.Load(x)
		}
	}
	return x.v.CompareAndSwap(old, new)
}

func (x *Bool) Swap(new bool) bool {
	if vsched.InExec() {
		vsched.Store(x, b2i(new))
		vsched.NoteStore(x, b2i(new))
	}
	return x.v.Swap(new)
}

// Package-level functions on plain words (scheduling points keyed by the address).

func LoadInt64(addr *int64) int64 {
	if vsched.InExec() {
		vsched.Load(addr)
	} else if vsched.Teardown() {
		return 1
	}
	return goatomic.LoadInt64(addr)
}

func StoreInt64(addr *int64, val int64) {
	if vsched.InExec() {
		vsched.Store(addr, val)
		vsched.NoteStore(addr, val)
	}
	goatomic.StoreInt64(addr, val)
}

func AddInt64(addr *int64, delta int64) int64 {
	if vsched.InExec() {
		vsched.Store(addr, goatomic.LoadInt64(addr)+delta)
	}
	return goatomic.AddInt64(addr, delta)
}

func CompareAndSwapInt64(addr *int64, old, new int64) bool {
	if vsched.InExec() {
		vsched.Store(addr, new)
	}
	return goatomic.CompareAndSwapInt64(addr, old, new)
}

func LoadInt32(addr *int32) int32 {
	if vsched.InExec() {
		vsched.Load(addr)
	} else if vsched.Teardown() {
		return 1
	}
	return goatomic.LoadInt32(addr)
}

func StoreInt32(addr *int32, val int32) {
	if vsched.InExec() {
		vsched.Store(addr, int64(val))
		vsched.NoteStore(addr, int64(val))
	}
	goatomic.StoreInt32(addr, val)
}

func AddInt32(addr *int32, delta int32) int32 {
	if vsched.InExec() {
		vsched.Store(addr, int64(goatomic.LoadInt32(addr)+delta))
	}
	return goatomic.AddInt32(addr, delta)
}

func CompareAndSwapInt32(addr *int32, old, new int32) bool {
	if vsched.InExec() {
		vsched.Store(addr, int64(new))
	}
	return goatomic.CompareAndSwapInt32(addr, old, new)
}

func LoadUint32(addr *uint32) uint32 {
	if vsched.InExec() {
		vsched.Load(addr)
	} else if vsched.Teardown() {
		return 1
	}
	return goatomic.LoadUint32(addr)
}

func StoreUint32(addr *uint32, val uint32) {
	if vsched.InExec() {
		vsched.Store(addr, int64(val))
		vsched.NoteStore(addr, int64(val))
	}
	goatomic.StoreUint32(addr, val)
}
