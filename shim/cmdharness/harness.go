//go:build vsched

// This file is added (by go build -overlay) to package main of
// github.com/ozanh/ugo/cmd/ugo, whose own main() is renamed by the rewriter.
// It explores executeScript - the command's "run a script under a context" path -
// under the controlled scheduler and prints one JSON line per scenario. It is
// the C09 family "cmd-ugo"; the C09 check runs this binary and judges the lines.
package main

import (
	"context"
	"encoding/json"
	"errors"
	"fmt"
	"io"
	"os"
	"strconv"
	"time"

	"github.com/ozanh/ugo"
	"github.com/ozanh/ugo/vshim/vsched"
)

const (
	hPolls  = 60
	quantum = 12
)

type hctx struct {
	done chan struct{}
	err  error
}

func (c *hctx) Deadline() (t0 time.Time, ok bool) { return }
func (c *hctx) Done() <-chan struct{}             { return c.done }
func (c *hctx) Err() error                        { return c.err }
func (c *hctx) Value(any) any                     { return nil }
func (c *hctx) cancel() {
	if c.err == nil {
		c.err = context.Canceled
		vsched.Close(c.done)
	}
}

func code(err error) int64 {
	switch {
	case err == nil:
		return 0
	case errors.Is(err, ugo.ErrVMAborted):
		return 1
	case errors.Is(err, context.Canceled):
		return 2
	}
	return 3
}

type viol struct {
	Class   string `json:"class"`
	What    string `json:"what"`
	Count   int64  `json:"count"`
	Preempt int    `json:"preemptions"`
	Choices []int  `json:"choices"`
	Trace   string `json:"trace"`
}

type line struct {
	Scenario    string  `json:"scenario"`
	Bound       int     `json:"bound"`
	Schedules   int64   `json:"schedules"`
	Transitions int64   `json:"transitions"`
	States      int     `json:"states"`
	Cut         int64   `json:"cut"`
	Inside      int64   `json:"cancel_inside_run"`
	Violations  []*viol `json:"violations"`
	Infra       string  `json:"infra,omitempty"`
	Default     string  `json:"default_schedule_trace"`
}

func polls(e *vsched.Exec, from, to int) (loads, waits int) {
	if to < 0 {
		to = len(e.Events)
	}
	for i := from + 1; i < to; i++ {
		ev := e.Events[i]
		if e.ThreadName(ev.Thread) == "abort" {
			continue
		}
		switch ev.Kind {
		case vsched.KLoad:
			loads++
			waits++
		case vsched.KSelect, vsched.KPoll:
			waits++
		}
	}
	return
}

func overdue(l, w int) bool { return l >= hPolls || w >= 10*hPolls }

func judge(e *vsched.Exec, nonterm bool) (class, what string, inside bool) {
	if e.Panic != "" {
		return "panic", e.Panic, false
	}
	call, ret, acall, aret := -1, -1, -1, -1
	var rc int64
	for i, ev := range e.Events {
		if ev.Kind != vsched.KNote {
			continue
		}
		switch ev.Label {
		case "run-call":
			call = i
		case "run-ret":
			ret, rc = i, ev.Value
		case "abort-call":
			acall = i
		case "abort-ret":
			aret = i
		}
	}
	inside = acall > call && call >= 0 && (ret < 0 || acall < ret)
	if ret < 0 {
		if e.Deadlock {
			return "deadlock", "deadlock: no thread can continue while executeScript has not returned", inside
		}
		if aret >= 0 {
			if l, w := polls(e, aret, -1); overdue(l, w) {
				return "cancel-lost", fmt.Sprintf("executeScript is still executing %d instruction polls (%d waiting steps) after the context was cancelled", l, w), inside
			}
		}
		return "", "", inside
	}
	switch rc {
	case 0:
		if nonterm {
			return "impossible-return", "executeScript of a script that cannot end returned no error", inside
		}
		if aret >= 0 && aret < call {
			// cancelled before the call: the script may still run to its end (the command checks the context
			// only while waiting), nothing to demand
		}
	case 1, 2:
		if acall < 0 || acall > ret {
			return "spurious-abort", "executeScript returned a cancellation error although the context was not cancelled before it returned", inside
		}
	default:
		return "wrong-error", "executeScript returned an unexpected error", inside
	}
	if aret >= 0 && aret < ret {
		if l, w := polls(e, aret, ret); overdue(l, w) {
			return "cancel-slow", fmt.Sprintf("executeScript needed %d polls after the cancellation returned", l), inside
		}
	}
	return "", "", inside
}

func stop(e *vsched.Exec) bool {
	last := -1
	for i, ev := range e.Events {
		if ev.Kind == vsched.KNote && ev.Label == "abort-ret" {
			last = i
		}
	}
	if last < 0 {
		return false
	}
	l, w := polls(e, last, -1)
	return overdue(l-2, w-2)
}

func main() {
	bound := 2
	if len(os.Args) > 1 {
		if n, err := strconv.Atoi(os.Args[1]); err == nil {
			bound = n
		}
	}
	only := -1
	if len(os.Args) > 2 {
		if n, err := strconv.Atoi(os.Args[2]); err == nil {
			only = n
		}
	}
	enc := json.NewEncoder(os.Stdout)
	scripts := []struct {
		name, src string
		nonterm   bool
		noopt     bool
	}{
		{"spin", "for {}", true, true},
		{"loop3", "x := 0; for i := 0; i < 3; i++ { x += i }", false, true},
		{"empty", "", false, true},
		{"spin, optimizer on", "for {}", true, false},
	}
	for si, s := range scripts {
		s := s
		if only >= 0 && si != only {
			continue
		}
		noOptimize = s.noopt
		body := func() {
			ctx := &hctx{done: make(chan struct{})}
			vsched.Go("run", func() {
				vsched.Note("run-call", 0)
				err := executeScript(ctx, "(main)", ".", []byte(s.src), io.Discard)
				vsched.Note("run-ret", code(err))
			})
			vsched.Go("abort", func() {
				vsched.Note("abort-call", 0)
				ctx.cancel()
				vsched.Note("abort-ret", 0)
			})
		}
		cfg := vsched.Config{Quantum: quantum, Horizon: 4000, Stop: stop}
		out := line{Scenario: "cmd/ugo executeScript script=" + s.name, Bound: bound}
		e1 := vsched.Run(cfg, nil, body)
		e2 := vsched.Run(cfg, e1.Choices(), body)
		out.Default = e1.Trace()
		if e1.Trace() != e2.Trace() || e1.Diverged != "" {
			out.Infra = "replaying the default schedule gives a different event log: " + e1.Diverged
			enc.Encode(out)
			continue
		}
		stats := &vsched.Stats{StateHashes: map[uint64]bool{}}
		fails := map[string]*viol{}
		vsched.Explore(cfg, bound, body, func(e *vsched.Exec) bool {
			if e.Diverged != "" {
				out.Infra = e.Diverged
				return false
			}
			class, what, inside := judge(e, s.nonterm)
			if inside {
				out.Inside++
			}
			if class != "" {
				v := fails[class]
				p := e.Preemptions()
				if v == nil || p < v.Preempt {
					n := int64(0)
					if v != nil {
						n = v.Count
					}
					tr := e.Trace()
					if len(tr) > 4000 {
						tr = tr[:4000] + " ..."
					}
					v = &viol{Class: class, What: what, Count: n, Preempt: p, Choices: e.Choices(), Trace: tr}
					fails[class] = v
				}
				v.Count++
			}
			return true
		}, stats, nil)
		out.Schedules, out.Transitions, out.States, out.Cut = stats.Executions, stats.Points, len(stats.StateHashes), stats.Cut
		for _, v := range fails {
			out.Violations = append(out.Violations, v)
		}
		enc.Encode(out)
	}
}
