#!/bin/bash
# usage: ./run.sh <Cxx> <quick|thorough> [extra args]
# Rebuilds the check binary from /repo's current working tree (with the verif overlay) and runs the check.
set -u
cd "$(dirname "$0")"
export GOFLAGS=-mod=mod GOPROXY=off GOSUMDB=off GOTOOLCHAIN=local
id="$1"; tier="${2:-quick}"; shift; shift || true
case "$id" in
  C08|C09) bin=vsched ;;
  *) bin=vcheck ;;
esac
./build.sh $bin || { echo "INFRASTRUCTURE: build failed" >&2; exit 2; }
exec ./bin/$bin "$id" --tier "$tier" "$@"
