#!/bin/bash
# usage: ./run.sh <Cxx> <quick|thorough> [extra vcheck args]
# Rebuilds the check binary from /repo's current working tree (with the verif overlay) and runs the check.
set -u
cd "$(dirname "$0")"
export GOFLAGS=-mod=mod GOPROXY=off GOSUMDB=off GOTOOLCHAIN=local
id="$1"; tier="${2:-quick}"; shift; shift || true
./build.sh || { echo "INFRASTRUCTURE: build failed" >&2; exit 2; }
exec ./bin/vcheck "$id" --tier "$tier" "$@"
