// Package cmpx compares an observation of the reference interpreter with an
// observation of the implementation.
package cmpx

import (
	"fmt"
	"strings"

	"verif/internal/ref"
	"verif/internal/run"
)

// RefString renders a reference result like run.Obs.String.
func RefString(r ref.Result) string {
	if r.ErrName != "" {
		msg := r.ErrMsg
		if !r.MsgKnown {
			msg = "*"
		}
		return fmt.Sprintf("ERR %s: %s log=%v", r.ErrName, msg, r.Log)
	}
	return fmt.Sprintf("OK %s log=%v", r.Val, r.Log)
}

// Compare returns "" when the implementation's observation agrees with the
// reference, otherwise a description of the first difference.
func Compare(r ref.Result, o run.Obs) string {
	switch {
	case o.CompilePan != "":
		return "compiler panicked: " + o.CompilePan
	case o.CompileErr != "":
		return "unexpected compile error: " + o.CompileErr
	case o.CodecErr != "":
		return "codec error: " + o.CodecErr
	case o.Panic != "":
		return "VM panicked: " + o.Panic
	case o.Hung:
		return "implementation did not terminate (watchdog) while the reference did"
	}
	if strings.Join(r.Log, ";") != strings.Join(o.Log, ";") {
		return fmt.Sprintf("probe log differs: reference %v, implementation %v", r.Log, o.Log)
	}
	if r.ErrName != "" {
		if o.ErrName == "" && o.ErrText == "" {
			return fmt.Sprintf("reference raises %s, implementation returns %s", r.ErrName, o.Val)
		}
		if o.ErrName != r.ErrName {
			return fmt.Sprintf("reference raises %s, implementation raises %s (%s)", r.ErrName, o.ErrName, o.ErrText)
		}
		if r.MsgKnown && o.ErrMsg != r.ErrMsg {
			return fmt.Sprintf("error message differs: reference %q, implementation %q", r.ErrMsg, o.ErrMsg)
		}
		return ""
	}
	if o.ErrName != "" || o.ErrText != "" {
		return fmt.Sprintf("reference returns %s, implementation raises %s: %s (%s)", r.Val, o.ErrName, o.ErrMsg, o.ErrText)
	}
	if r.Val != o.Val {
		return fmt.Sprintf("returned value differs: reference %s, implementation %s", r.Val, o.Val)
	}
	return ""
}
