// Package v1 produces bytecode in the previous (version 1) serialization
// format from bytecode compiled today. Version 1 differs from version 2 in one
// respect only: the position operands of JUMP, JUMPFALSY, ANDJUMP, ORJUMP (one
// operand) and SETUPTRY (two operands) are 2 bytes wide instead of 4, so every
// instruction after one of them sits at a smaller offset and every position
// operand and source-map key refers to those smaller offsets. The body encoding
// is otherwise identical (encoder.encodeBytecodeCommon under a version-1
// header), which is what encoder/export_test.go's EncodeBytecodeV1 does too.
//
// Down is the harness-owned down-converter; Up is an independent reference
// up-converter used to validate Down on every program: Up(Down(p)) == p.
package v1

import (
	"bytes"
	"fmt"

	"github.com/ozanh/ugo"
	"github.com/ozanh/ugo/encoder"
)

func isJump(op byte) bool {
	switch op {
	case ugo.OpJump, ugo.OpJumpFalsy, ugo.OpAndJump, ugo.OpOrJump:
		return true
	}
	return false
}

func width2(op byte) int {
	w := 0
	for _, o := range ugo.OpcodeOperands[op] {
		w += o
	}
	return w
}

// width1 is the operand width of op in version 1.
func width1(op byte) int {
	switch {
	case isJump(op):
		return 2
	case op == ugo.OpSetupTry:
		return 4
	}
	return width2(op)
}

func be(b []byte, n int) int {
	v := 0
	for i := 0; i < n; i++ {
		v = v<<8 | int(b[i])
	}
	return v
}

func put(b []byte, n, v int) {
	for i := n - 1; i >= 0; i-- {
		b[i] = byte(v)
		v >>= 8
	}
}

// downFunc converts one function; ok=false when a position does not fit in 16 bits.
func downFunc(f *ugo.CompiledFunction) (*ugo.CompiledFunction, bool, error) {
	in := f.Instructions
	// pass 1: old -> new offsets of instruction starts (and of the end)
	newPos := map[int]int{}
	n := 0
	for i := 0; i < len(in); {
		op := in[i]
		if int(op) >= len(ugo.OpcodeOperands) {
			return nil, false, fmt.Errorf("unknown opcode %d", op)
		}
		newPos[i] = n
		i += 1 + width2(op)
		n += 1 + width1(op)
	}
	newPos[len(in)] = n
	out := make([]byte, 0, n)
	for i := 0; i < len(in); {
		op := in[i]
		w := width2(op)
		switch {
		case isJump(op):
			t := be(in[i+1:], 4)
			nt, ok := newPos[t]
			if !ok {
				return nil, false, fmt.Errorf("jump target %d is not an instruction start", t)
			}
			if nt > 0xFFFF {
				return nil, false, nil
			}
			b := []byte{op, 0, 0}
			put(b[1:], 2, nt)
			out = append(out, b...)
		case op == ugo.OpSetupTry:
			b := []byte{op, 0, 0, 0, 0}
			for k := 0; k < 2; k++ {
				t := be(in[i+1+4*k:], 4)
				nt := 0
				if t != 0 {
					var ok bool
					nt, ok = newPos[t]
					if !ok {
						return nil, false, fmt.Errorf("try target %d is not an instruction start", t)
					}
				}
				if nt > 0xFFFF {
					return nil, false, nil
				}
				put(b[1+2*k:], 2, nt)
			}
			out = append(out, b...)
		default:
			out = append(out, in[i:i+1+w]...)
		}
		i += 1 + w
	}
	sm := make(map[int]int, len(f.SourceMap))
	for k, v := range f.SourceMap {
		nk, ok := newPos[k]
		if !ok {
			return nil, false, fmt.Errorf("source map key %d is not an instruction start", k)
		}
		sm[nk] = v
	}
	return &ugo.CompiledFunction{Instructions: out, NumParams: f.NumParams, NumLocals: f.NumLocals, Variadic: f.Variadic, SourceMap: sm, Free: f.Free}, true, nil
}

// Down returns a copy of bc whose functions are in version-1 form.
func Down(bc *ugo.Bytecode) (*ugo.Bytecode, bool, error) {
	out := &ugo.Bytecode{FileSet: bc.FileSet, NumModules: bc.NumModules}
	m, ok, err := downFunc(bc.Main)
	if err != nil || !ok {
		return nil, ok, err
	}
	out.Main = m
	out.Constants = make([]ugo.Object, len(bc.Constants))
	for i, c := range bc.Constants {
		if f, isF := c.(*ugo.CompiledFunction); isF {
			d, ok, err := downFunc(f)
			if err != nil || !ok {
				return nil, ok, err
			}
			out.Constants[i] = d
		} else {
			out.Constants[i] = c
		}
	}
	return out, true, nil
}

// upFunc is the reference up-converter (independent of the repository's).
func upFunc(f *ugo.CompiledFunction) *ugo.CompiledFunction {
	in := f.Instructions
	newPos := map[int]int{}
	n := 0
	for i := 0; i < len(in); {
		op := in[i]
		newPos[i] = n
		i += 1 + width1(op)
		n += 1 + width2(op)
	}
	newPos[len(in)] = n
	out := make([]byte, 0, n)
	for i := 0; i < len(in); {
		op := in[i]
		w := width1(op)
		switch {
		case isJump(op):
			b := []byte{op, 0, 0, 0, 0}
			put(b[1:], 4, newPos[be(in[i+1:], 2)])
			out = append(out, b...)
		case op == ugo.OpSetupTry:
			b := make([]byte, 9)
			b[0] = op
			for k := 0; k < 2; k++ {
				t := be(in[i+1+2*k:], 2)
				if t != 0 {
					t = newPos[t]
				}
				put(b[1+4*k:], 4, t)
			}
			out = append(out, b...)
		default:
			out = append(out, in[i:i+1+w]...)
		}
		i += 1 + w
	}
	sm := make(map[int]int, len(f.SourceMap))
	for k, v := range f.SourceMap {
		sm[newPos[k]] = v
	}
	return &ugo.CompiledFunction{Instructions: out, NumParams: f.NumParams, NumLocals: f.NumLocals, Variadic: f.Variadic, SourceMap: sm, Free: f.Free}
}

// SelfCheck verifies Up(Down(bc)) == bc for every function.
func SelfCheck(orig, down *ugo.Bytecode) error {
	cmp := func(a, b *ugo.CompiledFunction, what string) error {
		u := upFunc(b)
		if !bytes.Equal(u.Instructions, a.Instructions) {
			return fmt.Errorf("%s: up(down(instructions)) differs", what)
		}
		if len(u.SourceMap) != len(a.SourceMap) {
			return fmt.Errorf("%s: source map size differs", what)
		}
		for k, v := range a.SourceMap {
			if u.SourceMap[k] != v {
				return fmt.Errorf("%s: source map differs at %d", what, k)
			}
		}
		return nil
	}
	if err := cmp(orig.Main, down.Main, "main"); err != nil {
		return err
	}
	for i, c := range orig.Constants {
		if f, ok := c.(*ugo.CompiledFunction); ok {
			if err := cmp(f, down.Constants[i].(*ugo.CompiledFunction), fmt.Sprintf("constant %d", i)); err != nil {
				return err
			}
		}
	}
	return nil
}

// Encode serializes a version-1-form bytecode under a version-1 header.
func Encode(down *ugo.Bytecode) ([]byte, error) {
	var buf bytes.Buffer
	if err := encoder.EncodeBytecodeTo(down, &buf); err != nil {
		return nil, err
	}
	b := buf.Bytes()
	if len(b) < 6 {
		return nil, fmt.Errorf("short encoding")
	}
	b[4], b[5] = 0, 1
	return b, nil
}

// FromBytecode is Down + SelfCheck + Encode; ok=false when the program does not fit version 1.
func FromBytecode(bc *ugo.Bytecode) (data []byte, ok bool, err error) {
	d, ok, err := Down(bc)
	if err != nil || !ok {
		return nil, ok, err
	}
	if err := SelfCheck(bc, d); err != nil {
		return nil, true, fmt.Errorf("down-converter self check: %w", err)
	}
	data, err = Encode(d)
	return data, true, err
}
