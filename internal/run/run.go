// Package run executes source text on the real implementation and returns an
// observation in the same vocabulary as the reference interpreter.
package run

import (
	"bytes"
	"errors"
	"fmt"
	"strings"
	"sync"
	"sync/atomic"
	"time"

	"github.com/ozanh/ugo"
	"github.com/ozanh/ugo/encoder"

	"verif/internal/uv"
)

// Options selects the configuration of one run.
type Options struct {
	NoOptimize   bool
	OptLimit     int
	Modules      map[string]string // source modules
	ModuleMap    *ugo.ModuleMap    // overrides Modules when set
	Args         []ugo.Object
	Globals      ugo.Map // extra globals (L is always provided)
	NoRecover    bool    // run without SetRecover(true)
	EncodeDecode int     // number of encode->decode round trips before running
	SymbolTable  *ugo.SymbolTable
}

// Obs is the observation of one run on the implementation.
type Obs struct {
	CompileErr string
	CompilePan string
	Val        string
	ErrName    string
	ErrMsg     string
	ErrText    string
	Log        []string
	Panic      string
	Hung       bool
	Trace      []int // source lines of the stack trace, outermost first
	TraceFiles []string
	TraceOffs  []int
	Globals    string
	CodecErr   string
	Output     string
}

// String is a compact rendering used in violation messages.
func (o Obs) String() string {
	switch {
	case o.CompilePan != "":
		return "COMPILE-PANIC " + o.CompilePan
	case o.CompileErr != "":
		return "COMPILE-ERROR " + o.CompileErr
	case o.CodecErr != "":
		return "CODEC-ERROR " + o.CodecErr
	case o.Panic != "":
		return "PANIC " + o.Panic
	case o.Hung:
		return "HUNG (aborted by watchdog)"
	case o.ErrName != "" || o.ErrText != "":
		if o.ErrName == "" {
			return fmt.Sprintf("ERR go:%s log=%v", o.ErrText, o.Log)
		}
		return fmt.Sprintf("ERR %s: %s log=%v", o.ErrName, o.ErrMsg, o.Log)
	}
	return fmt.Sprintf("OK %s log=%v", o.Val, o.Log)
}

// Key is a canonical comparison key (value/error name+message/log/output/globals).
func (o Obs) Key() string {
	return fmt.Sprintf("%s|%s|%s|%s|%s|%v|%v|%s|%s|%s", o.CompilePan, o.CompileErr, o.Val, o.ErrName, o.ErrMsg, o.Hung, o.Panic != "", strings.Join(o.Log, ";"), o.Output, o.Globals)
}

// --- watchdog ---------------------------------------------------------------

var (
	wdOnce  sync.Once
	wdVM    atomic.Pointer[ugo.VM]
	wdStart atomic.Int64
	wdFired atomic.Bool
	// Timeout is the per-run watchdog limit.
	Timeout = 5 * time.Second
)

func watchdog() {
	for {
		time.Sleep(50 * time.Millisecond)
		vm := wdVM.Load()
		if vm == nil {
			continue
		}
		if time.Since(time.Unix(0, wdStart.Load())) > Timeout {
			wdFired.Store(true)
			vm.Abort()
		}
	}
}

// Guard runs f with vm under the watchdog and reports whether it fired.
func Guard(vm *ugo.VM, f func()) (hung bool) {
	wdOnce.Do(func() { go watchdog() })
	wdFired.Store(false)
	wdStart.Store(time.Now().UnixNano())
	wdVM.Store(vm)
	defer func() {
		wdVM.Store(nil)
		hung = wdFired.Load()
	}()
	f()
	return
}

// --- compile ----------------------------------------------------------------

// NewLogGlobals returns a globals map with the probe function L writing to log.
func NewLogGlobals(log *[]string) ugo.Map {
	return ugo.Map{"L": &ugo.Function{Name: "L", Value: func(args ...ugo.Object) (ugo.Object, error) {
		parts := make([]string, len(args))
		for i, a := range args {
			parts[i] = uv.Repr(a)
		}
		*log = append(*log, strings.Join(parts, ","))
		if len(args) == 0 {
			return ugo.Undefined, nil
		}
		return args[len(args)-1], nil
	}}}
}

// CompilerOptions builds ugo.CompilerOptions from Options.
func CompilerOptions(opt Options) ugo.CompilerOptions {
	co := ugo.CompilerOptions{NoOptimize: opt.NoOptimize, OptimizerLimit: opt.OptLimit, SymbolTable: opt.SymbolTable}
	if opt.ModuleMap != nil {
		co.ModuleMap = opt.ModuleMap
	} else if len(opt.Modules) > 0 {
		mm := ugo.NewModuleMap()
		for k, v := range opt.Modules {
			mm.AddSourceModule(k, []byte(v))
		}
		co.ModuleMap = mm
	}
	return co
}

// Compile compiles with panic protection.
func Compile(src string, opt Options) (bc *ugo.Bytecode, cerr error, pan string) {
	defer func() {
		if r := recover(); r != nil {
			pan = fmt.Sprint(r)
		}
	}()
	bc, cerr = ugo.Compile([]byte(src), CompilerOptions(opt))
	return
}

// RoundTrip encodes and decodes bytecode n times.
func RoundTrip(bc *ugo.Bytecode, mm *ugo.ModuleMap, n int) (out *ugo.Bytecode, err error) {
	defer func() {
		if r := recover(); r != nil {
			err = fmt.Errorf("panic in codec: %v", r)
		}
	}()
	out = bc
	for i := 0; i < n; i++ {
		var buf bytes.Buffer
		if err = encoder.EncodeBytecodeTo(out, &buf); err != nil {
			return nil, fmt.Errorf("encode: %w", err)
		}
		out, err = encoder.DecodeBytecodeFrom(&buf, mm)
		if err != nil {
			return nil, fmt.Errorf("decode: %w", err)
		}
	}
	return
}

// Source compiles and runs src.
func Source(src string, opt Options) Obs {
	bc, cerr, pan := Compile(src, opt)
	if pan != "" {
		return Obs{CompilePan: pan}
	}
	if cerr != nil {
		return Obs{CompileErr: cerr.Error()}
	}
	if opt.EncodeDecode > 0 {
		nb, err := RoundTrip(bc, CompilerOptions(opt).ModuleMap, opt.EncodeDecode)
		if err != nil {
			return Obs{CodecErr: err.Error()}
		}
		bc = nb
	}
	return Bytecode(bc, opt)
}

// Bytecode runs compiled bytecode on a fresh VM.
func Bytecode(bc *ugo.Bytecode, opt Options) Obs {
	vm := ugo.NewVM(bc)
	if !opt.NoRecover {
		vm.SetRecover(true)
	}
	return OnVM(vm, opt)
}

// OnVM runs the VM's current bytecode with fresh log globals.
func OnVM(vm *ugo.VM, opt Options) (o Obs) {
	var log []string
	g := NewLogGlobals(&log)
	for k, v := range opt.Globals {
		g[k] = v
	}
	var out bytes.Buffer
	prev := ugo.PrintWriter
	ugo.PrintWriter = &out
	defer func() { ugo.PrintWriter = prev }()
	var v ugo.Object
	var err error
	hung := Guard(vm, func() {
		defer func() {
			if r := recover(); r != nil {
				o.Panic = fmt.Sprint(r)
			}
		}()
		v, err = vm.Run(g, opt.Args...)
	})
	o.Log = log
	o.Output = out.String()
	delete(g, "L")
	if len(g) > 0 {
		o.Globals = uv.Repr(g)
	}
	if o.Panic != "" {
		return
	}
	if hung && errors.Is(err, ugo.ErrVMAborted) {
		o.Hung = true
		return
	}
	if err != nil {
		o.ErrText = err.Error()
		o.ErrName = uv.ErrName(err)
		var re *ugo.RuntimeError
		if errors.As(err, &re) && re.Err != nil {
			o.ErrMsg = re.Err.Message
			for _, p := range re.StackTrace() {
				o.Trace = append(o.Trace, p.Line)
				o.TraceFiles = append(o.TraceFiles, p.Filename)
				o.TraceOffs = append(o.TraceOffs, p.Offset)
			}
		} else {
			var e *ugo.Error
			if errors.As(err, &e) {
				o.ErrMsg = e.Message
			}
		}
		return
	}
	o.Val = uv.Repr(v)
	return
}
