// Package uv has helpers on uGO values shared by the checks: a canonical,
// type-exact, NaN- and -0-aware representation used both as comparison key and
// as human-readable text in evidence and replay files.
package uv

import (
	"errors"
	"fmt"
	"math"
	"sort"
	"strconv"
	"strings"

	"github.com/ozanh/ugo"
)

// Repr returns the canonical representation of o. Two values have the same
// Repr iff they have the same dynamic types and the same contents (floats are
// compared by bit pattern except that all NaNs are one value; map keys sorted).
func Repr(o ugo.Object) string {
	var sb strings.Builder
	repr(&sb, o, 0)
	return sb.String()
}

func repr(sb *strings.Builder, o ugo.Object, depth int) {
	if depth > 12 {
		sb.WriteString("<deep>")
		return
	}
	switch v := o.(type) {
	case nil:
		sb.WriteString("<nil>")
	case ugo.Int:
		sb.WriteString(strconv.FormatInt(int64(v), 10))
	case ugo.Uint:
		sb.WriteString(strconv.FormatUint(uint64(v), 10) + "u")
	case ugo.Float:
		sb.WriteString(FloatRepr(float64(v)))
	case ugo.Char:
		fmt.Fprintf(sb, "char(%d)", int32(v))
	case ugo.Bool:
		if v {
			sb.WriteString("true")
		} else {
			sb.WriteString("false")
		}
	case ugo.String:
		sb.WriteString(strconv.Quote(string(v)))
	case ugo.Bytes:
		fmt.Fprintf(sb, "bytes(%q)", string(v))
	case *ugo.UndefinedType:
		sb.WriteString("undefined")
	case ugo.Array:
		sb.WriteByte('[')
		for i, e := range v {
			if i > 0 {
				sb.WriteString(", ")
			}
			repr(sb, e, depth+1)
		}
		sb.WriteByte(']')
	case ugo.Map:
		reprMap(sb, "", v, depth)
	case *ugo.SyncMap:
		if v == nil {
			sb.WriteString("syncmap(nil)")
			return
		}
		reprMap(sb, "sync", v.Value, depth)
	case *ugo.Error:
		fmt.Fprintf(sb, "error(%s: %s)", nameOr(v.Name), v.Message)
	case *ugo.RuntimeError:
		if v.Err == nil {
			sb.WriteString("rterror(nil)")
		} else {
			fmt.Fprintf(sb, "error(%s: %s)", nameOr(v.Err.Name), v.Err.Message)
		}
	case *ugo.CompiledFunction:
		sb.WriteString("<compiledFunction>")
	case *ugo.Function:
		fmt.Fprintf(sb, "<function:%s>", v.Name)
	case *ugo.BuiltinFunction:
		fmt.Fprintf(sb, "<builtin:%s>", v.Name)
	case *ugo.ObjectPtr:
		sb.WriteString("ptr(")
		if v.Value != nil {
			repr(sb, *v.Value, depth+1)
		}
		sb.WriteByte(')')
	default:
		fmt.Fprintf(sb, "<%T:%s>", o, o.String())
	}
}

func reprMap(sb *strings.Builder, prefix string, m map[string]ugo.Object, depth int) {
	keys := make([]string, 0, len(m))
	for k := range m {
		keys = append(keys, k)
	}
	sort.Strings(keys)
	sb.WriteString(prefix + "{")
	for i, k := range keys {
		if i > 0 {
			sb.WriteString(", ")
		}
		sb.WriteString(strconv.Quote(k))
		sb.WriteString(": ")
		repr(sb, m[k], depth+1)
	}
	sb.WriteByte('}')
}

// FloatRepr is a bit-exact text of a float (always has a float marker).
func FloatRepr(f float64) string {
	switch {
	case math.IsNaN(f):
		return "NaN"
	case math.IsInf(f, 1):
		return "+Inf"
	case math.IsInf(f, -1):
		return "-Inf"
	case f == 0 && math.Signbit(f):
		return "-0.0"
	}
	s := strconv.FormatFloat(f, 'g', -1, 64)
	if !strings.ContainsAny(s, ".e") {
		s += ".0"
	}
	return s
}

// Same reports whether two values are identical by Repr.
func Same(a, b ugo.Object) bool { return Repr(a) == Repr(b) }

// ErrName extracts the uGO error name of err ("" when it is not a uGO error).
func ErrName(err error) string {
	if err == nil {
		return ""
	}
	var re *ugo.RuntimeError
	if errors.As(err, &re) && re.Err != nil {
		return nameOr(re.Err.Name)
	}
	var e *ugo.Error
	if errors.As(err, &e) {
		return nameOr(e.Name)
	}
	return ""
}

func nameOr(n string) string {
	if n == "" {
		return "error"
	}
	return n
}

// ErrRepr gives "Name: Message" for uGO errors and "go:<text>" otherwise.
func ErrRepr(err error) string {
	if err == nil {
		return ""
	}
	var re *ugo.RuntimeError
	if errors.As(err, &re) && re.Err != nil {
		return nameOr(re.Err.Name) + ": " + re.Err.Message
	}
	var e *ugo.Error
	if errors.As(err, &e) {
		return nameOr(e.Name) + ": " + e.Message
	}
	return "go:" + err.Error()
}

// Outcome is the canonical text of a (value, error) result.
func Outcome(v ugo.Object, err error) string {
	if err != nil {
		return "ERR " + ErrRepr(err)
	}
	return "OK " + Repr(v)
}

// Protect runs f and converts a panic into (nil, error) with ok=false.
func Protect(f func() (ugo.Object, error)) (v ugo.Object, err error, panicked any) {
	defer func() {
		if r := recover(); r != nil {
			panicked = r
		}
	}()
	v, err = f()
	return
}
