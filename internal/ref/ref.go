// Package ref is a definitional interpreter for the uGO subset of package gen,
// written from docs/tutorial.md, docs/error-handling.md and
// docs/destructuring.md (see DESIGN.md Appendix A). It is the "model" of the
// model_checking checks; every program it runs is also run on the real
// implementation and the observations are compared.
package ref

import (
	"fmt"
	"sort"
	"strconv"
	"strings"

	"verif/internal/gen"
)

// V is a reference value: int64, string, bool, Undefined, *ArrV, *MapV,
// *Closure, *ErrV or *Builtin.
type V interface{}

// Undefined is the undefined value.
type Undefined struct{}

// ArrV is an array (reference semantics).
type ArrV struct{ E []V }

// MapV is a map (reference semantics).
type MapV struct{ M map[string]V }

// ErrV is an error value.
type ErrV struct {
	Name, Msg string
	MsgKnown  bool // message text is part of the documented behaviour
}

// Closure is a function value with its defining environment.
type Closure struct {
	F   gen.Func
	Env *env
}

// Builtin is a native function provided by the harness.
type Builtin struct {
	Name string
	Fn   func(in *Interp, args []V) (V, *ErrV)
}

type cell struct {
	v      V
	konst  bool
	global string // non-empty: the cell is a view on globals[global]
}

// env is one layer of the lexical environment. Every executed declaration
// opens a new layer for the statements after it, so a closure created before
// a declaration does not see it (names resolve lexically). Layers of the same
// block share the block id.
type env struct {
	vars   map[string]*cell
	parent *env
	block  int
}

var blockIDs int

// lookupBlock finds a name declared in the same block as e.
func (e *env) lookupBlock(n string) *cell {
	for x := e; x != nil && x.block == e.block; x = x.parent {
		if c, ok := x.vars[n]; ok {
			return c
		}
	}
	return nil
}

func layer(p *env) *env { return &env{parent: p, block: p.block} }

func (e *env) lookup(n string) *cell {
	for ; e != nil; e = e.parent {
		if c, ok := e.vars[n]; ok {
			return c
		}
	}
	return nil
}

func (e *env) define(n string, v V) *cell {
	if e.vars == nil {
		e.vars = map[string]*cell{}
	}
	c := &cell{v: v}
	e.vars[n] = c
	return c
}

func child(p *env) *env { blockIDs++; return &env{parent: p, block: blockIDs} }

type ctl int

const (
	cNormal ctl = iota
	cReturn
	cBreak
	cContinue
	cThrow
)

type comp struct {
	k ctl
	v V
}

var normal = comp{}

// Interp runs one program.
type Interp struct {
	Globals map[string]V
	Args    []V
	Log     []string
	Modules map[string][]gen.Stmt
	// ModRuns counts executions of each module body.
	ModRuns  map[string]int
	modCache map[string]V
	Steps    int
	MaxSteps int
	Depth    int
	MaxDepth int
	builtins *env
	// Unsupported is set when the program left the modelled subset.
	Unsupported string
	// PendingFinally counts finally bodies entered with a non-normal completion pending.
	PendingFinally int
}

type budget struct{}
type unsupported struct{ what string }

// Result is the observation of one run.
type Result struct {
	Val         string // Repr of the returned value ("" when Err)
	ErrName     string
	ErrMsg      string
	MsgKnown    bool
	Log         []string
	Unsupported string
	Budget      bool
}

// New makes an interpreter with the harness builtin L.
func New() *Interp {
	in := &Interp{Globals: map[string]V{}, MaxSteps: 200000, MaxDepth: 900, ModRuns: map[string]int{}, modCache: map[string]V{}}
	in.builtins = &env{}
	in.Globals["L"] = &Builtin{Name: "L", Fn: func(in *Interp, args []V) (V, *ErrV) {
		parts := make([]string, len(args))
		for i, a := range args {
			parts[i] = Repr(a)
		}
		in.Log = append(in.Log, strings.Join(parts, ","))
		if len(args) == 0 {
			return Undefined{}, nil
		}
		return args[len(args)-1], nil
	}}
	in.builtins.define("error", &Builtin{Name: "error", Fn: func(in *Interp, args []V) (V, *ErrV) {
		if len(args) != 1 {
			return nil, &ErrV{Name: "WrongNumberOfArgumentsError"}
		}
		return &ErrV{Name: "error", Msg: Str(args[0]), MsgKnown: true}, nil
	}})
	in.builtins.define("len", &Builtin{Name: "len", Fn: func(in *Interp, args []V) (V, *ErrV) {
		if len(args) != 1 {
			return nil, &ErrV{Name: "WrongNumberOfArgumentsError"}
		}
		switch a := args[0].(type) {
		case *ArrV:
			return int64(len(a.E)), nil
		case *MapV:
			return int64(len(a.M)), nil
		case string:
			return int64(len(a)), nil
		}
		return int64(0), nil
	}})
	in.builtins.define("string", &Builtin{Name: "string", Fn: func(in *Interp, args []V) (V, *ErrV) {
		if len(args) != 1 {
			return nil, &ErrV{Name: "WrongNumberOfArgumentsError"}
		}
		return Str(args[0]), nil
	}})
	return in
}

// Run executes a program (main + modules) and returns the observation.
func (in *Interp) Run(p *gen.Program) (res Result) {
	in.Modules = p.Modules
	defer func() {
		if r := recover(); r != nil {
			switch x := r.(type) {
			case budget:
				res = Result{Budget: true, Log: in.Log}
			case unsupported:
				res = Result{Unsupported: x.what, Log: in.Log}
			default:
				panic(r)
			}
		}
	}()
	c := in.runBody(p.Main, true)
	res.Log = in.Log
	switch c.k {
	case cThrow:
		e := c.v.(*ErrV)
		res.ErrName, res.ErrMsg, res.MsgKnown = e.Name, e.Msg, e.MsgKnown
	case cReturn:
		res.Val = Repr(c.v)
	default:
		res.Val = "undefined"
	}
	return
}

// runBody runs a main script or module body as a function activation.
func (in *Interp) runBody(body []gen.Stmt, isMain bool) comp {
	e := child(in.builtins)
	fe := &fenv{isMain: isMain}
	return in.block(body, e, fe, false)
}

// fenv carries per-activation context.
type fenv struct {
	isMain bool
	iota   *int64
}

func (in *Interp) step() {
	in.Steps++
	if in.Steps > in.MaxSteps {
		panic(budget{})
	}
}

func (in *Interp) unsup(format string, a ...any) {
	panic(unsupported{fmt.Sprintf(format, a...)})
}

// block executes statements; newScope opens a fresh block scope.
func (in *Interp) block(body []gen.Stmt, e *env, fe *fenv, newScope bool) comp {
	c, _ := in.blockEnv(body, e, fe, newScope)
	return c
}

// blockEnv also returns the environment reached after the last executed statement.
func (in *Interp) blockEnv(body []gen.Stmt, e *env, fe *fenv, newScope bool) (comp, *env) {
	if newScope {
		e = child(e)
	}
	for _, s := range body {
		switch s.(type) {
		case gen.Define, gen.Var, gen.Const, gen.Param, gen.Global:
			e = layer(e)
		}
		if c := in.stmt(s, e, fe); c.k != cNormal {
			return c, e
		}
	}
	return normal, e
}

func throwC(e *ErrV) comp { return comp{cThrow, e} }

func (in *Interp) stmt(s gen.Stmt, e *env, fe *fenv) comp {
	in.step()
	switch s := s.(type) {
	case gen.Define:
		v, err := in.eval(s.X, e, fe)
		if err != nil {
			return throwC(err)
		}
		if len(s.Names) == 1 {
			e.define(s.Names[0], v)
			return normal
		}
		vals := destructure(v, len(s.Names))
		for i, n := range s.Names {
			// `:=` is a declaration: one fresh variable per executed declaration, also for a name that is already
			// declared in this very scope (a closure created before keeps the variable it captured)
			e.define(n, vals[i])
		}
		return normal
	case gen.Var:
		var v V = Undefined{}
		if s.X != nil {
			var err *ErrV
			v, err = in.eval(s.X, e, fe)
			if err != nil {
				return throwC(err)
			}
		}
		e.define(s.N, v)
		return normal
	case gen.Const:
		var last gen.Expr
		for i, sp := range s.Specs {
			x := sp.X
			if x == nil {
				x = last
			} else {
				last = x
			}
			io := int64(i)
			sub := &fenv{isMain: fe.isMain, iota: &io}
			v, err := in.eval(x, e, sub)
			if err != nil {
				return throwC(err)
			}
			if sp.N != "_" {
				e.define(sp.N, v).konst = true
			}
		}
		return normal
	case gen.Assign:
		return in.assign(s, e, fe)
	case gen.IncDec:
		op := "+="
		if s.Op == "--" {
			op = "-="
		}
		return in.assign(gen.Assign{T: []gen.Expr{s.X}, Op: op, X: gen.IntLit{V: 1}}, e, fe)
	case gen.ExprStmt:
		if _, err := in.eval(s.X, e, fe); err != nil {
			return throwC(err)
		}
		return normal
	case gen.Block:
		return in.block(s.Body, e, fe, true)
	case gen.If:
		ie := child(e)
		if s.Init != nil {
			if c := in.stmt(s.Init, ie, fe); c.k != cNormal {
				return c
			}
		}
		cv, err := in.eval(s.Cond, ie, fe)
		if err != nil {
			return throwC(err)
		}
		if !Falsy(cv) {
			return in.block(s.Then, ie, fe, true)
		}
		if s.HasElse {
			return in.block(s.Else, ie, fe, true)
		}
		return normal
	case gen.For:
		le := child(e)
		if s.Init != nil {
			if c := in.stmt(s.Init, le, fe); c.k != cNormal {
				return c
			}
		}
		for {
			in.step()
			if s.Cond != nil {
				cv, err := in.eval(s.Cond, le, fe)
				if err != nil {
					return throwC(err)
				}
				if Falsy(cv) {
					break
				}
			}
			c := in.block(s.Body, le, fe, true)
			if c.k == cBreak {
				break
			}
			if c.k == cReturn || c.k == cThrow {
				return c
			}
			if s.Post != nil {
				if c := in.stmt(s.Post, le, fe); c.k != cNormal {
					return c
				}
			}
		}
		return normal
	case gen.ForIn:
		xv, err := in.eval(s.X, e, fe)
		if err != nil {
			return throwC(err)
		}
		type kv struct{ k, v V }
		var items []kv
		switch x := xv.(type) {
		case *ArrV:
			// the iterator reads the live array; a snapshot is equivalent as long
			// as the body does not resize it (generators do not)
			for i := range x.E {
				items = append(items, kv{int64(i), nil})
			}
			for i := range items {
				idx := i
				_ = idx
			}
			for i := 0; ; i++ {
				if i >= len(x.E) {
					break
				}
				in.step()
				le := child(e)
				if s.K != "" && s.K != "_" {
					le.define(s.K, int64(i))
				}
				if s.V != "_" {
					le.define(s.V, x.E[i])
				}
				c := in.block(s.Body, le, fe, true)
				if c.k == cBreak {
					break
				}
				if c.k == cReturn || c.k == cThrow {
					return c
				}
			}
			return normal
		case *MapV:
			keys := sortedKeys(x.M)
			if len(keys) > 1 {
				in.unsup("for-in over a map with more than one key (iteration order unspecified)")
			}
			for _, k := range keys {
				le := child(e)
				if s.K != "" && s.K != "_" {
					le.define(s.K, k)
				}
				if s.V != "_" {
					le.define(s.V, x.M[k])
				}
				c := in.block(s.Body, le, fe, true)
				if c.k == cBreak {
					break
				}
				if c.k == cReturn || c.k == cThrow {
					return c
				}
			}
			return normal
		case string:
			in.unsup("for-in over string")
		case Undefined:
			return throwC(&ErrV{Name: "NotIterableError"})
		case int64, bool:
			return throwC(&ErrV{Name: "NotIterableError"})
		}
		in.unsup("for-in over %T", xv)
		return normal
	case gen.Break:
		return comp{k: cBreak}
	case gen.Continue:
		return comp{k: cContinue}
	case gen.Return:
		var v V = Undefined{}
		if s.X != nil {
			var err *ErrV
			v, err = in.eval(s.X, e, fe)
			if err != nil {
				return throwC(err)
			}
		}
		return comp{cReturn, v}
	case gen.Throw:
		v, err := in.eval(s.X, e, fe)
		if err != nil {
			return throwC(err)
		}
		if ev, ok := v.(*ErrV); ok {
			return throwC(ev)
		}
		return throwC(&ErrV{Name: "error", Msg: Str(v), MsgKnown: true})
	case gen.Try:
		// try, catch and finally bodies share one block scope (docs/error-handling.md)
		te := child(e)
		if s.HasCatch && s.CatchName != "" {
			te.define(s.CatchName, Undefined{})
		}
		c, be := in.blockEnv(s.Body, te, fe, false)
		if c.k == cThrow && s.HasCatch {
			if isStackOverflow(c.v) {
				return c
			}
			if s.CatchName != "" {
				te.vars[s.CatchName].v = c.v
			}
			c, be = in.blockEnv(s.Catch, be, fe, false)
		}
		if s.HasFinally {
			if c.k == cThrow && isStackOverflow(c.v) {
				return c
			}
			if c.k != cNormal {
				in.PendingFinally++
			}
			fc := in.block(s.Finally, be, fe, false)
			if fc.k != cNormal {
				return fc
			}
		}
		return c
	case gen.Param:
		for i, n := range s.Names {
			var v V = Undefined{}
			if s.Variadic && i == len(s.Names)-1 {
				rest := &ArrV{}
				if len(in.Args) > i {
					rest.E = append(rest.E, in.Args[i:]...)
				}
				v = rest
			} else if i < len(in.Args) {
				v = in.Args[i]
			}
			e.define(n, v)
		}
		return normal
	case gen.Global:
		for _, n := range s.Names {
			e.define(n, nil).global = n
		}
		return normal
	}
	in.unsup("statement %T", s)
	return normal
}

func isStackOverflow(v V) bool {
	e, ok := v.(*ErrV)
	return ok && e.Name == "StackOverflowError"
}

func destructure(v V, n int) []V {
	out := make([]V, n)
	for i := range out {
		out[i] = Undefined{}
	}
	if a, ok := v.(*ArrV); ok {
		copy(out, a.E)
		return out
	}
	out[0] = v
	return out
}

func (in *Interp) getCell(c *cell) V {
	if c.global != "" {
		if v, ok := in.Globals[c.global]; ok {
			return v
		}
		return Undefined{}
	}
	return c.v
}

func (in *Interp) setCell(c *cell, v V) {
	if c.global != "" {
		in.Globals[c.global] = v
		return
	}
	c.v = v
}

func (in *Interp) assign(s gen.Assign, e *env, fe *fenv) comp {
	if len(s.T) > 1 {
		v, err := in.eval(s.X, e, fe)
		if err != nil {
			return throwC(err)
		}
		vals := destructure(v, len(s.T))
		for i, t := range s.T {
			if c := in.store(t, vals[i], e, fe); c.k != cNormal {
				return c
			}
		}
		return normal
	}
	t := s.T[0]
	if s.Op == "=" {
		v, err := in.eval(s.X, e, fe)
		if err != nil {
			return throwC(err)
		}
		return in.store(t, v, e, fe)
	}
	// compound: (lhs) = (lhs) op (rhs); generators only use side-effect-free targets
	bop := strings.TrimSuffix(s.Op, "=")
	v, err := in.eval(gen.Bin{Op: bop, L: t, R: s.X}, e, fe)
	if err != nil {
		return throwC(err)
	}
	return in.store(t, v, e, fe)
}

// store evaluates the operands of target t left to right and assigns v.
func (in *Interp) store(t gen.Expr, v V, e *env, fe *fenv) comp {
	switch t := t.(type) {
	case gen.Name:
		c := e.lookup(t.N)
		if c == nil {
			in.unsup("assignment to undeclared %s", t.N)
		}
		in.setCell(c, v)
		return normal
	case gen.Index:
		xv, err := in.eval(t.X, e, fe)
		if err != nil {
			return throwC(err)
		}
		iv, err := in.eval(t.I, e, fe)
		if err != nil {
			return throwC(err)
		}
		if err := indexSet(xv, iv, v); err != nil {
			return throwC(err)
		}
		return normal
	case gen.Sel:
		xv, err := in.eval(t.X, e, fe)
		if err != nil {
			return throwC(err)
		}
		if err := indexSet(xv, t.N, v); err != nil {
			return throwC(err)
		}
		return normal
	}
	in.unsup("assignment target %T", t)
	return normal
}

func indexSet(x, i, v V) *ErrV {
	switch x := x.(type) {
	case *ArrV:
		idx, ok := i.(int64)
		if !ok {
			return &ErrV{Name: "TypeError"}
		}
		if idx < 0 || idx >= int64(len(x.E)) {
			return &ErrV{Name: "IndexOutOfBoundsError"}
		}
		x.E[idx] = v
		return nil
	case *MapV:
		x.M[Str(i)] = v
		return nil
	}
	return &ErrV{Name: "NotIndexAssignableError"}
}

func indexGet(x, i V) (V, *ErrV) {
	switch x := x.(type) {
	case *ArrV:
		idx, ok := i.(int64)
		if !ok {
			return nil, &ErrV{Name: "TypeError"}
		}
		if idx < 0 || idx >= int64(len(x.E)) {
			return nil, &ErrV{Name: "IndexOutOfBoundsError", Msg: strconv.FormatInt(idx, 10), MsgKnown: true}
		}
		return x.E[idx], nil
	case *MapV:
		if v, ok := x.M[Str(i)]; ok {
			return v, nil
		}
		return Undefined{}, nil
	case Undefined:
		return Undefined{}, nil
	case *ErrV:
		switch Str(i) {
		case "Name":
			return x.Name, nil
		case "Message":
			return x.Msg, nil
		}
		return Undefined{}, nil
	case string:
		idx, ok := i.(int64)
		if !ok {
			return nil, &ErrV{Name: "TypeError"}
		}
		if idx < 0 || idx >= int64(len(x)) {
			return nil, &ErrV{Name: "IndexOutOfBoundsError"}
		}
		return int64(x[idx]), nil
	}
	return nil, &ErrV{Name: "NotIndexableError"}
}

func (in *Interp) eval(x gen.Expr, e *env, fe *fenv) (V, *ErrV) {
	in.step()
	switch x := x.(type) {
	case gen.IntLit:
		return x.V, nil
	case gen.StrLit:
		return x.V, nil
	case gen.BoolLit:
		return x.V, nil
	case gen.Undef:
		return Undefined{}, nil
	case gen.Paren:
		return in.eval(x.X, e, fe)
	case gen.Name:
		if c := e.lookup(x.N); c != nil {
			return in.getCell(c), nil
		}
		if x.N == "iota" && fe.iota != nil {
			return *fe.iota, nil
		}
		in.unsup("unresolved name %s", x.N)
	case gen.Bin:
		l, err := in.eval(x.L, e, fe)
		if err != nil {
			return nil, err
		}
		r, err := in.eval(x.R, e, fe)
		if err != nil {
			return nil, err
		}
		return in.binop(x.Op, l, r)
	case gen.Un:
		v, err := in.eval(x.X, e, fe)
		if err != nil {
			return nil, err
		}
		switch x.Op {
		case "!":
			return Falsy(v), nil
		case "-":
			if i, ok := v.(int64); ok {
				return -i, nil
			}
			if _, ok := v.(string); ok {
				return nil, &ErrV{Name: "TypeError", Msg: "invalid type for unary '-': 'string'", MsgKnown: true}
			}
		}
		in.unsup("unary %s on %T", x.Op, v)
	case gen.Logic:
		l, err := in.eval(x.L, e, fe)
		if err != nil {
			return nil, err
		}
		if x.Op == "&&" {
			if Falsy(l) {
				return l, nil
			}
		} else if !Falsy(l) {
			return l, nil
		}
		return in.eval(x.R, e, fe)
	case gen.Cond:
		c, err := in.eval(x.C, e, fe)
		if err != nil {
			return nil, err
		}
		if !Falsy(c) {
			return in.eval(x.A, e, fe)
		}
		return in.eval(x.B, e, fe)
	case gen.Arr:
		a := &ArrV{E: make([]V, 0, len(x.E))}
		for _, el := range x.E {
			v, err := in.eval(el, e, fe)
			if err != nil {
				return nil, err
			}
			a.E = append(a.E, v)
		}
		return a, nil
	case gen.MapLit:
		m := &MapV{M: map[string]V{}}
		for i, k := range x.K {
			v, err := in.eval(x.V[i], e, fe)
			if err != nil {
				return nil, err
			}
			m.M[strings.Trim(k, `"`)] = v
		}
		return m, nil
	case gen.Index:
		xv, err := in.eval(x.X, e, fe)
		if err != nil {
			return nil, err
		}
		iv, err := in.eval(x.I, e, fe)
		if err != nil {
			return nil, err
		}
		return indexGet(xv, iv)
	case gen.Slice:
		// x[lo:hi] of an array: a view of the same elements (generators only use bounds that are in range)
		xv, err := in.eval(x.X, e, fe)
		if err != nil {
			return nil, err
		}
		arr, ok := xv.(*ArrV)
		if !ok {
			in.unsup("slice of %T", xv)
		}
		lo, hi := int64(0), int64(len(arr.E))
		if x.Lo != nil {
			v, err := in.eval(x.Lo, e, fe)
			if err != nil {
				return nil, err
			}
			lo, _ = v.(int64)
		}
		if x.Hi != nil {
			v, err := in.eval(x.Hi, e, fe)
			if err != nil {
				return nil, err
			}
			hi, _ = v.(int64)
		}
		if lo < 0 || hi > int64(len(arr.E)) || lo > hi {
			return nil, &ErrV{Name: "IndexOutOfBoundsError"}
		}
		return &ArrV{E: arr.E[lo:hi]}, nil
	case gen.Sel:
		xv, err := in.eval(x.X, e, fe)
		if err != nil {
			return nil, err
		}
		return indexGet(xv, x.N)
	case gen.Func:
		return &Closure{F: x, Env: e}, nil
	case gen.Call:
		fv, err := in.eval(x.Fn, e, fe)
		if err != nil {
			return nil, err
		}
		args := make([]V, 0, len(x.Args))
		for i, a := range x.Args {
			v, err := in.eval(a, e, fe)
			if err != nil {
				return nil, err
			}
			if x.Spread && i == len(x.Args)-1 {
				arr, ok := v.(*ArrV)
				if !ok {
					return nil, &ErrV{Name: "TypeError"}
				}
				args = append(args, arr.E...)
			} else {
				args = append(args, v)
			}
		}
		return in.call(fv, args)
	case gen.Import:
		return in.importModule(x.N)
	}
	in.unsup("expression %T", x)
	return nil, nil
}

func (in *Interp) importModule(name string) (V, *ErrV) {
	if v, ok := in.modCache[name]; ok {
		return v, nil
	}
	body, ok := in.Modules[name]
	if !ok {
		in.unsup("unknown module %s", name)
	}
	in.ModRuns[name]++
	c := in.runBody(body, false)
	var v V = Undefined{}
	switch c.k {
	case cThrow:
		return nil, c.v.(*ErrV)
	case cReturn:
		v = c.v
	}
	in.modCache[name] = v
	return v, nil
}

func (in *Interp) call(fv V, args []V) (V, *ErrV) {
	switch f := fv.(type) {
	case *Builtin:
		return f.Fn(in, args)
	case *Closure:
		np := len(f.F.Params)
		if f.F.Variadic {
			if len(args) < np-1 {
				return nil, &ErrV{Name: "WrongNumberOfArgumentsError", Msg: fmt.Sprintf("want>=%d got=%d", np-1, len(args)), MsgKnown: true}
			}
		} else if len(args) != np {
			return nil, &ErrV{Name: "WrongNumberOfArgumentsError", Msg: fmt.Sprintf("want=%d got=%d", np, len(args)), MsgKnown: true}
		}
		in.Depth++
		defer func() { in.Depth-- }()
		if in.Depth > in.MaxDepth {
			in.unsup("call depth beyond the modelled limit")
		}
		ce := child(f.Env)
		for i, p := range f.F.Params {
			if f.F.Variadic && i == np-1 {
				ce.define(p, &ArrV{E: append([]V{}, args[i:]...)})
			} else {
				ce.define(p, args[i])
			}
		}
		c := in.block(f.F.Body, ce, &fenv{}, false)
		switch c.k {
		case cThrow:
			return nil, c.v.(*ErrV)
		case cReturn:
			return c.v, nil
		}
		return Undefined{}, nil
	}
	return nil, &ErrV{Name: "NotCallableError", Msg: TypeName(fv), MsgKnown: true}
}

func (in *Interp) binop(op string, l, r V) (V, *ErrV) {
	switch op {
	case "==":
		return equal(l, r), nil
	case "!=":
		return !equal(l, r), nil
	}
	switch a := l.(type) {
	case int64:
		b, ok := r.(int64)
		if !ok {
			if _, isU := r.(Undefined); isU {
				switch op {
				case "<", "<=":
					return false, nil
				case ">", ">=":
					return true, nil
				}
			}
			if _, isS := r.(string); isS {
				return nil, &ErrV{Name: "TypeError"}
			}
			in.unsup("int %s %T", op, r)
		}
		switch op {
		case "+":
			return a + b, nil
		case "-":
			return a - b, nil
		case "*":
			return a * b, nil
		case "/":
			if b == 0 {
				return nil, &ErrV{Name: "ZeroDivisionError", MsgKnown: true}
			}
			return a / b, nil
		case "%":
			if b == 0 {
				return nil, &ErrV{Name: "ZeroDivisionError", MsgKnown: true}
			}
			return a % b, nil
		case "<":
			return a < b, nil
		case "<=":
			return a <= b, nil
		case ">":
			return a > b, nil
		case ">=":
			return a >= b, nil
		}
	case string:
		if op == "+" {
			return a + Str(r), nil
		}
		if b, ok := r.(string); ok {
			switch op {
			case "<":
				return a < b, nil
			case "<=":
				return a <= b, nil
			case ">":
				return a > b, nil
			case ">=":
				return a >= b, nil
			}
		}
		return nil, &ErrV{Name: "TypeError"}
	case *ArrV:
		if op == "+" {
			n := &ArrV{E: append([]V{}, a.E...)}
			if b, ok := r.(*ArrV); ok {
				n.E = append(n.E, b.E...)
			} else {
				n.E = append(n.E, r)
			}
			return n, nil
		}
	case Undefined:
		switch op {
		case "+", "-", "*", "/":
			return nil, &ErrV{Name: "TypeError"}
		}
	}
	in.unsup("binary %T %s %T", l, op, r)
	return nil, nil
}

func equal(l, r V) bool {
	switch a := l.(type) {
	case int64:
		b, ok := r.(int64)
		return ok && a == b
	case string:
		b, ok := r.(string)
		return ok && a == b
	case bool:
		b, ok := r.(bool)
		return ok && a == b
	case Undefined:
		_, ok := r.(Undefined)
		return ok
	case *ArrV:
		b, ok := r.(*ArrV)
		if !ok || len(a.E) != len(b.E) {
			return false
		}
		for i := range a.E {
			if !equal(a.E[i], b.E[i]) {
				return false
			}
		}
		return true
	case *MapV:
		b, ok := r.(*MapV)
		if !ok || len(a.M) != len(b.M) {
			return false
		}
		for k, v := range a.M {
			w, ok := b.M[k]
			if !ok || !equal(v, w) {
				return false
			}
		}
		return true
	case *ErrV:
		return l == r
	case *Closure:
		return l == r
	}
	return false
}

// Falsy implements docs/runtime-types.md "Object.IsFalsy()".
func Falsy(v V) bool {
	switch a := v.(type) {
	case int64:
		return a == 0
	case string:
		return a == ""
	case bool:
		return !a
	case Undefined:
		return true
	case *ArrV:
		return len(a.E) == 0
	case *MapV:
		return len(a.M) == 0
	case *ErrV:
		return true
	}
	return false
}

// TypeName is the uGO type name of a value.
func TypeName(v V) string {
	switch v.(type) {
	case int64:
		return "int"
	case string:
		return "string"
	case bool:
		return "bool"
	case Undefined:
		return "undefined"
	case *ArrV:
		return "array"
	case *MapV:
		return "map"
	case *ErrV:
		return "error"
	case *Closure:
		return "compiledFunction"
	case *Builtin:
		return "function"
	}
	return "?"
}

// Str is the string conversion (Object.String()).
func Str(v V) string {
	switch a := v.(type) {
	case int64:
		return strconv.FormatInt(a, 10)
	case string:
		return a
	case bool:
		if a {
			return "true"
		}
		return "false"
	case Undefined:
		return "undefined"
	case *ErrV:
		return a.Name + ": " + a.Msg
	}
	panic(unsupported{fmt.Sprintf("string conversion of %T", v)})
}

func sortedKeys(m map[string]V) []string {
	keys := make([]string, 0, len(m))
	for k := range m {
		keys = append(keys, k)
	}
	sort.Strings(keys)
	return keys
}

// Repr renders a value exactly like uv.Repr renders the corresponding uGO value.
func Repr(v V) string {
	var sb strings.Builder
	repr(&sb, v, 0)
	return sb.String()
}

func repr(sb *strings.Builder, v V, depth int) {
	if depth > 12 {
		sb.WriteString("<deep>")
		return
	}
	switch a := v.(type) {
	case int64:
		sb.WriteString(strconv.FormatInt(a, 10))
	case string:
		sb.WriteString(strconv.Quote(a))
	case bool:
		if a {
			sb.WriteString("true")
		} else {
			sb.WriteString("false")
		}
	case Undefined:
		sb.WriteString("undefined")
	case *ArrV:
		sb.WriteByte('[')
		for i, e := range a.E {
			if i > 0 {
				sb.WriteString(", ")
			}
			repr(sb, e, depth+1)
		}
		sb.WriteByte(']')
	case *MapV:
		sb.WriteByte('{')
		for i, k := range sortedKeys(a.M) {
			if i > 0 {
				sb.WriteString(", ")
			}
			sb.WriteString(strconv.Quote(k) + ": ")
			repr(sb, a.M[k], depth+1)
		}
		sb.WriteByte('}')
	case *ErrV:
		if a.MsgKnown {
			fmt.Fprintf(sb, "error(%s: %s)", a.Name, a.Msg)
		} else {
			fmt.Fprintf(sb, "error(%s: *)", a.Name)
		}
	case *Closure:
		sb.WriteString("<compiledFunction>")
	case *Builtin:
		fmt.Fprintf(sb, "<function:%s>", a.Name)
	default:
		fmt.Fprintf(sb, "<%T>", v)
	}
}

// Call invokes a function value (used by harness-provided builtins such as callbacks).
func (in *Interp) Call(f V, args []V) (V, *ErrV) { return in.call(f, args) }
