// Package gen holds the harness-owned AST of the uGO subset used by the
// program-shaped checks, a deterministic printer to source text and small
// enumeration helpers. The same AST is executed by the reference interpreter
// (package ref), so the printed text and the reference semantics cannot drift.
package gen

import (
	"strconv"
	"strings"
)

// Expr is an expression node.
type Expr interface{ expr() }

// Stmt is a statement node.
type Stmt interface{ stmt() }

type (
	// IntLit is an int literal.
	IntLit struct{ V int64 }
	// StrLit is a string literal.
	StrLit struct{ V string }
	// BoolLit is true/false.
	BoolLit struct{ V bool }
	// Undef is the undefined literal.
	Undef struct{}
	// Raw is a literal of another kind given as source text (not executable by ref).
	Raw struct{ Src string }
	// Name is an identifier reference.
	Name struct{ N string }
	// Bin is a binary operator expression (arithmetic/comparison).
	Bin struct {
		Op   string
		L, R Expr
	}
	// Un is a unary operator expression.
	Un struct {
		Op string
		X  Expr
	}
	// Logic is && or ||.
	Logic struct {
		Op   string
		L, R Expr
	}
	// Cond is c ? a : b.
	Cond struct{ C, A, B Expr }
	// Call is fn(args) ; Spread marks the last argument as ...arg.
	Call struct {
		Fn     Expr
		Args   []Expr
		Spread bool
	}
	// Index is x[i].
	Index struct{ X, I Expr }
	// Sel is x.name.
	Sel struct {
		X Expr
		N string
	}
	// Slice is x[lo:hi]; nil bounds are omitted.
	Slice struct{ X, Lo, Hi Expr }
	// Arr is an array literal.
	Arr struct{ E []Expr }
	// MapLit is a map literal with identifier/string keys.
	MapLit struct {
		K []string
		V []Expr
	}
	// Func is a function literal.
	Func struct {
		Params   []string
		Variadic bool
		Body     []Stmt
	}
	// Import is import("name").
	Import struct{ N string }
	// Paren forces parentheses when printed.
	Paren struct{ X Expr }
)

func (IntLit) expr()  {}
func (StrLit) expr()  {}
func (BoolLit) expr() {}
func (Undef) expr()   {}
func (Raw) expr()     {}
func (Name) expr()    {}
func (Bin) expr()     {}
func (Un) expr()      {}
func (Logic) expr()   {}
func (Cond) expr()    {}
func (Call) expr()    {}
func (Index) expr()   {}
func (Sel) expr()     {}
func (Slice) expr()   {}
func (Arr) expr()     {}
func (MapLit) expr()  {}
func (Func) expr()    {}
func (Import) expr()  {}
func (Paren) expr()   {}

type (
	// Define is `a := x` or, with several names, `a, b := x` (destructuring).
	Define struct {
		Names []string
		X     Expr
	}
	// Var is `var a` / `var a = x`.
	Var struct {
		N string
		X Expr // may be nil
	}
	// ConstSpec is one line of a const group; X nil repeats the previous expression.
	ConstSpec struct {
		N string
		X Expr
	}
	// Const is `const a = x` or a parenthesised group.
	Const struct {
		Specs []ConstSpec
		Group bool
	}
	// Assign is `t = x`, `t op= x` or destructuring assignment `t1, t2 = x`.
	Assign struct {
		T  []Expr
		Op string // "=", "+=", ...
		X  Expr
	}
	// IncDec is x++ / x--.
	IncDec struct {
		X  Expr
		Op string
	}
	// ExprStmt is an expression statement.
	ExprStmt struct{ X Expr }
	// Block is a nested block scope, printed as `if true { ... }`.
	Block struct{ Body []Stmt }
	// If is if [init;] cond {then} [else {else}]; ElseIf chains.
	If struct {
		Init    Stmt
		Cond    Expr
		Then    []Stmt
		Else    []Stmt
		HasElse bool
	}
	// For is for [init]; [cond]; [post] {body}; all nil = for {}.
	For struct {
		Init Stmt
		Cond Expr
		Post Stmt
		Body []Stmt
	}
	// ForIn is for k, v in x {body}; K may be "" (only value).
	ForIn struct {
		K, V string
		X    Expr
		Body []Stmt
	}
	// Break statement.
	Break struct{}
	// Continue statement.
	Continue struct{}
	// Return is return [x].
	Return struct{ X Expr }
	// Throw is throw x.
	Throw struct{ X Expr }
	// Try is try {body} [catch [name] {c}] [finally {f}].
	Try struct {
		Body       []Stmt
		HasCatch   bool
		CatchName  string
		Catch      []Stmt
		HasFinally bool
		Finally    []Stmt
	}
	// Param is param (a, b, ...c).
	Param struct {
		Names    []string
		Variadic bool
	}
	// Global is global (a, b).
	Global struct{ Names []string }
	// RawStmt is source text passed through (not executable by ref).
	RawStmt struct{ Src string }
)

func (Define) stmt()   {}
func (Var) stmt()      {}
func (Const) stmt()    {}
func (Assign) stmt()   {}
func (IncDec) stmt()   {}
func (ExprStmt) stmt() {}
func (Block) stmt()    {}
func (If) stmt()       {}
func (For) stmt()      {}
func (ForIn) stmt()    {}
func (Break) stmt()    {}
func (Continue) stmt() {}
func (Return) stmt()   {}
func (Throw) stmt()    {}
func (Try) stmt()      {}
func (Param) stmt()    {}
func (Global) stmt()   {}
func (RawStmt) stmt()  {}

// Program is a main script plus its source modules.
type Program struct {
	Main    []Stmt
	Modules map[string][]Stmt
}

// ---------------------------------------------------------------------------
// Printer

// Printer renders statements; Sep is the statement separator ("; " for the
// canonical single-line form, "\n" for one statement per line).
type Printer struct {
	sb     strings.Builder
	Lines  bool
	indent int
}

// Source prints a statement list in canonical single-line form.
func Source(body []Stmt) string {
	p := &Printer{}
	p.stmts(body)
	return p.sb.String()
}

// SourceLines prints one statement per line (bodies indented).
func SourceLines(body []Stmt) string {
	p := &Printer{Lines: true}
	p.stmts(body)
	return p.sb.String()
}

// ExprString prints an expression.
func ExprString(e Expr) string {
	p := &Printer{}
	p.expr(e)
	return p.sb.String()
}

func (p *Printer) sep() {
	if p.Lines {
		p.sb.WriteByte('\n')
		for i := 0; i < p.indent; i++ {
			p.sb.WriteByte('\t')
		}
	} else {
		p.sb.WriteString("; ")
	}
}

func (p *Printer) stmts(body []Stmt) {
	for i, s := range body {
		if i > 0 {
			p.sep()
		}
		p.stmt(s)
	}
}

func (p *Printer) block(body []Stmt) {
	if len(body) == 0 {
		p.sb.WriteString("{}")
		return
	}
	p.sb.WriteString("{")
	p.indent++
	if p.Lines {
		p.sep()
	} else {
		p.sb.WriteByte(' ')
	}
	p.stmts(body)
	p.indent--
	if p.Lines {
		p.sep()
	} else {
		p.sb.WriteByte(' ')
	}
	p.sb.WriteString("}")
}

func (p *Printer) stmt(s Stmt) {
	w := p.sb.WriteString
	switch s := s.(type) {
	case Define:
		w(strings.Join(s.Names, ", "))
		w(" := ")
		p.expr(s.X)
	case Var:
		w("var " + s.N)
		if s.X != nil {
			w(" = ")
			p.expr(s.X)
		}
	case Const:
		if !s.Group {
			w("const " + s.Specs[0].N + " = ")
			p.expr(s.Specs[0].X)
			return
		}
		w("const (")
		for i, sp := range s.Specs {
			if i > 0 {
				w(", ") // newline-equivalent separator inside parenthesis groups is ',' or newline
			}
			w(sp.N)
			if sp.X != nil {
				w(" = ")
				p.expr(sp.X)
			}
		}
		w(")")
	case Assign:
		for i, t := range s.T {
			if i > 0 {
				w(", ")
			}
			p.expr(t)
		}
		w(" " + s.Op + " ")
		p.expr(s.X)
	case IncDec:
		p.expr(s.X)
		w(s.Op)
	case ExprStmt:
		p.expr(s.X)
	case Block:
		// uGO has no free-standing block statement ('{' starts a map literal); a
		// block scope is written as an always-true if statement
		w("if true ")
		p.block(s.Body)
	case If:
		w("if ")
		if s.Init != nil {
			p.stmt(s.Init)
			w("; ")
		}
		p.expr(s.Cond)
		w(" ")
		p.block(s.Then)
		if s.HasElse {
			w(" else ")
			if len(s.Else) == 1 {
				if ei, ok := s.Else[0].(If); ok {
					p.stmt(ei)
					return
				}
			}
			p.block(s.Else)
		}
	case For:
		w("for ")
		if s.Init != nil || s.Post != nil {
			if s.Init != nil {
				p.stmt(s.Init)
			}
			w("; ")
			if s.Cond != nil {
				p.expr(s.Cond)
			}
			w("; ")
			if s.Post != nil {
				p.stmt(s.Post)
			}
			w(" ")
		} else if s.Cond != nil {
			p.expr(s.Cond)
			w(" ")
		}
		p.block(s.Body)
	case ForIn:
		w("for ")
		if s.K != "" {
			w(s.K + ", ")
		}
		w(s.V + " in ")
		p.expr(s.X)
		w(" ")
		p.block(s.Body)
	case Break:
		w("break")
	case Continue:
		w("continue")
	case Return:
		w("return")
		if s.X != nil {
			w(" ")
			p.expr(s.X)
		}
	case Throw:
		w("throw ")
		p.expr(s.X)
	case Try:
		w("try ")
		p.block(s.Body)
		if s.HasCatch {
			w(" catch ")
			if s.CatchName != "" {
				w(s.CatchName + " ")
			}
			p.block(s.Catch)
		}
		if s.HasFinally {
			w(" finally ")
			p.block(s.Finally)
		}
	case Param:
		w("param (")
		for i, n := range s.Names {
			if i > 0 {
				w(", ")
			}
			if s.Variadic && i == len(s.Names)-1 {
				w("...")
			}
			w(n)
		}
		w(")")
	case Global:
		w("global (" + strings.Join(s.Names, ", ") + ")")
	case RawStmt:
		w(s.Src)
	default:
		panic("gen: unknown statement")
	}
}

func (p *Printer) expr(e Expr) {
	w := p.sb.WriteString
	switch e := e.(type) {
	case IntLit:
		if e.V < 0 {
			w("(" + strconv.FormatInt(e.V, 10) + ")")
		} else {
			w(strconv.FormatInt(e.V, 10))
		}
	case StrLit:
		w(strconv.Quote(e.V))
	case BoolLit:
		if e.V {
			w("true")
		} else {
			w("false")
		}
	case Undef:
		w("undefined")
	case Raw:
		w(e.Src)
	case Name:
		w(e.N)
	case Bin:
		w("(")
		p.expr(e.L)
		w(" " + e.Op + " ")
		p.expr(e.R)
		w(")")
	case Un:
		w("(" + e.Op)
		p.expr(e.X)
		w(")")
	case Logic:
		w("(")
		p.expr(e.L)
		w(" " + e.Op + " ")
		p.expr(e.R)
		w(")")
	case Cond:
		w("(")
		p.expr(e.C)
		w(" ? ")
		p.expr(e.A)
		w(" : ")
		p.expr(e.B)
		w(")")
	case Call:
		p.expr(e.Fn)
		w("(")
		for i, a := range e.Args {
			if i > 0 {
				w(", ")
			}
			if e.Spread && i == len(e.Args)-1 {
				w("...")
			}
			p.expr(a)
		}
		w(")")
	case Index:
		p.expr(e.X)
		w("[")
		p.expr(e.I)
		w("]")
	case Sel:
		p.expr(e.X)
		w("." + e.N)
	case Slice:
		p.expr(e.X)
		w("[")
		if e.Lo != nil {
			p.expr(e.Lo)
		}
		w(":")
		if e.Hi != nil {
			p.expr(e.Hi)
		}
		w("]")
	case Arr:
		w("[")
		for i, x := range e.E {
			if i > 0 {
				w(", ")
			}
			p.expr(x)
		}
		w("]")
	case MapLit:
		w("{")
		for i, k := range e.K {
			if i > 0 {
				w(", ")
			}
			w(k + ": ")
			p.expr(e.V[i])
		}
		w("}")
	case Func:
		w("func(")
		for i, n := range e.Params {
			if i > 0 {
				w(", ")
			}
			if e.Variadic && i == len(e.Params)-1 {
				w("...")
			}
			w(n)
		}
		w(") ")
		p.block(e.Body)
	case Import:
		w("import(" + strconv.Quote(e.N) + ")")
	case Paren:
		w("(")
		p.expr(e.X)
		w(")")
	default:
		panic("gen: unknown expression")
	}
}

// Convenience constructors ---------------------------------------------------

// I makes an int literal.
func I(v int64) Expr { return IntLit{v} }

// S makes a string literal.
func S(v string) Expr { return StrLit{v} }

// N makes a name.
func N(n string) Expr { return Name{n} }

// L makes a probe call L(k) or L(k, inner).
func L(k int64, inner ...Expr) Expr {
	args := append([]Expr{IntLit{k}}, inner...)
	return Call{Fn: Name{"L"}, Args: args}
}

// LS is the statement form of a probe.
func LS(k int64) Stmt { return ExprStmt{L(k)} }

// CallN calls a named function.
func CallN(fn string, args ...Expr) Expr { return Call{Fn: Name{fn}, Args: args} }

// Multiline puts one statement per line (statement separators "; " become
// newlines, except inside three-clause for headers) so that reported error
// positions distinguish source lines.
func Multiline(src string) string {
	var sb strings.Builder
	inFor := false
	for i := 0; i < len(src); i++ {
		if strings.HasPrefix(src[i:], "for ") && (i == 0 || src[i-1] == ' ' || src[i-1] == '\n') {
			inFor = true
		}
		if src[i] == '{' {
			inFor = false
		}
		if !inFor && src[i] == ';' && i+1 < len(src) && src[i+1] == ' ' {
			sb.WriteByte('\n')
			i++
			continue
		}
		sb.WriteByte(src[i])
	}
	return sb.String()
}

