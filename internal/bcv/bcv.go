// Package bcv is a structural bytecode verifier: every operand in range, every
// jump and try target on an instruction boundary inside its function, every
// constant/builtin/local/module index in range, NumParams <= NumLocals <= 256.
package bcv

import (
	"fmt"
	"sort"
	"strings"

	"github.com/ozanh/ugo"

	"verif/internal/uv"
)

// Verify checks bc and returns the first problem found ("" when well formed).
func Verify(bc *ugo.Bytecode) string {
	if bc == nil || bc.Main == nil {
		return "nil bytecode or main function"
	}
	if p := verifyFunc(bc, bc.Main, "main"); p != "" {
		return p
	}
	for i, c := range bc.Constants {
		if c == nil {
			return fmt.Sprintf("constant %d is nil", i)
		}
		if f, ok := c.(*ugo.CompiledFunction); ok {
			if p := verifyFunc(bc, f, fmt.Sprintf("constant %d", i)); p != "" {
				return p
			}
		}
	}
	return ""
}

func verifyFunc(bc *ugo.Bytecode, f *ugo.CompiledFunction, name string) string {
	if f.NumLocals > 256 {
		return fmt.Sprintf("%s: NumLocals %d > 256", name, f.NumLocals)
	}
	if f.NumParams > f.NumLocals || f.NumParams < 0 {
		return fmt.Sprintf("%s: NumParams %d, NumLocals %d", name, f.NumParams, f.NumLocals)
	}
	ins := f.Instructions
	starts := map[int]bool{}
	for i := 0; i < len(ins); {
		op := ins[i]
		if int(op) >= len(ugo.OpcodeOperands) {
			return fmt.Sprintf("%s: unknown opcode %d at %d", name, op, i)
		}
		starts[i] = true
		w := 0
		for _, o := range ugo.OpcodeOperands[op] {
			w += o
		}
		if i+1+w > len(ins) {
			return fmt.Sprintf("%s: instruction at %d runs past the end", name, i)
		}
		i += 1 + w
	}
	starts[len(ins)] = true
	operands := make([]int, 0, 4)
	for i := 0; i < len(ins); {
		op := ins[i]
		var off int
		operands, off = ugo.ReadOperands(ugo.OpcodeOperands[op], ins[i+1:], operands[:0])
		at := func(what string, v int) string {
			return fmt.Sprintf("%s: %s at %d: %s %d out of range", name, ugo.OpcodeNames[op], i, what, v)
		}
		switch op {
		case ugo.OpConstant, ugo.OpGetGlobal, ugo.OpSetGlobal:
			if operands[0] >= len(bc.Constants) {
				return at("constant index", operands[0])
			}
		case ugo.OpClosure:
			if operands[0] >= len(bc.Constants) {
				return at("constant index", operands[0])
			}
			if _, ok := bc.Constants[operands[0]].(*ugo.CompiledFunction); !ok {
				return at("closure constant is not a function", operands[0])
			}
		case ugo.OpGetLocal, ugo.OpSetLocal, ugo.OpDefineLocal, ugo.OpGetLocalPtr:
			if operands[0] >= f.NumLocals {
				return at("local index", operands[0])
			}
		case ugo.OpGetBuiltin:
			if operands[0] >= len(ugo.BuiltinObjects) || ugo.BuiltinObjects[operands[0]] == nil {
				return at("builtin index", operands[0])
			}
		case ugo.OpJump, ugo.OpJumpFalsy, ugo.OpAndJump, ugo.OpOrJump:
			if !starts[operands[0]] {
				return at("jump target (not an instruction boundary)", operands[0])
			}
		case ugo.OpSetupTry:
			for _, t := range operands {
				if t != 0 && !starts[t] {
					return at("try target (not an instruction boundary)", t)
				}
			}
		case ugo.OpLoadModule:
			if operands[0] >= len(bc.Constants) {
				return at("constant index", operands[0])
			}
			if operands[1] >= bc.NumModules {
				return at("module index", operands[1])
			}
		case ugo.OpStoreModule:
			if operands[0] >= bc.NumModules {
				return at("module index", operands[0])
			}
		case ugo.OpReturn:
			if operands[0] > 1 {
				return at("return count", operands[0])
			}
		case ugo.OpThrow:
			if operands[0] > 1 {
				return at("throw kind", operands[0])
			}
		}
		i += 1 + off
	}
	return ""
}

// Fingerprint is a structural digest of everything reachable from bc: main and
// constant functions (instructions, locals, params, source maps), constants
// (canonical value text), file set (names, sizes, line tables) and NumModules.
// Two fingerprints are equal iff the bytecodes are structurally identical.
func Fingerprint(bc *ugo.Bytecode) string {
	var sb strings.Builder
	fp := func(f *ugo.CompiledFunction) {
		fmt.Fprintf(&sb, "F[%x|p%d|l%d|v%v|", f.Instructions, f.NumParams, f.NumLocals, f.Variadic)
		keys := make([]int, 0, len(f.SourceMap))
		for k := range f.SourceMap {
			keys = append(keys, k)
		}
		sort.Ints(keys)
		for _, k := range keys {
			fmt.Fprintf(&sb, "%d:%d,", k, f.SourceMap[k])
		}
		fmt.Fprintf(&sb, "|free%d]", len(f.Free))
	}
	if bc.Main != nil {
		fp(bc.Main)
	}
	for _, c := range bc.Constants {
		if f, ok := c.(*ugo.CompiledFunction); ok {
			fp(f)
		} else {
			sb.WriteString(uv.Repr(c))
		}
		sb.WriteByte(';')
	}
	fmt.Fprintf(&sb, "|mods%d|", bc.NumModules)
	if bc.FileSet != nil {
		fmt.Fprintf(&sb, "fs%d:", bc.FileSet.Base)
		for _, f := range bc.FileSet.Files {
			if f != nil {
				fmt.Fprintf(&sb, "(%s,%d,%d,%v)", f.Name, f.Base, f.Size, f.Lines)
			}
		}
	}
	return sb.String()
}
