// Package bcv is a structural bytecode verifier: every operand in range, every
// jump and try target on an instruction boundary inside its function, every
// constant/builtin/local/module index in range, NumParams <= NumLocals <= 256.
package bcv

import (
	"fmt"
	"math"
	"reflect"
	"sort"
	"strings"

	"github.com/ozanh/ugo"

	"verif/internal/uv"
)

// Verify checks bc and returns the first problem found ("" when well formed).
func Verify(bc *ugo.Bytecode) string {
	if bc == nil || bc.Main == nil {
		return "nil bytecode or main function"
	}
	if p := verifyFunc(bc, bc.Main, "main"); p != "" {
		return p
	}
	for i, c := range bc.Constants {
		if c == nil {
			return fmt.Sprintf("constant %d is nil", i)
		}
		if f, ok := c.(*ugo.CompiledFunction); ok {
			if p := verifyFunc(bc, f, fmt.Sprintf("constant %d", i)); p != "" {
				return p
			}
		}
	}
	return ""
}

func verifyFunc(bc *ugo.Bytecode, f *ugo.CompiledFunction, name string) string {
	if f.NumLocals > 256 {
		return fmt.Sprintf("%s: NumLocals %d > 256", name, f.NumLocals)
	}
	if f.NumParams > f.NumLocals || f.NumParams < 0 {
		return fmt.Sprintf("%s: NumParams %d, NumLocals %d", name, f.NumParams, f.NumLocals)
	}
	ins := f.Instructions
	starts := map[int]bool{}
	for i := 0; i < len(ins); {
		op := ins[i]
		if int(op) >= len(ugo.OpcodeOperands) {
			return fmt.Sprintf("%s: unknown opcode %d at %d", name, op, i)
		}
		starts[i] = true
		w := 0
		for _, o := range ugo.OpcodeOperands[op] {
			w += o
		}
		if i+1+w > len(ins) {
			return fmt.Sprintf("%s: instruction at %d runs past the end", name, i)
		}
		i += 1 + w
	}
	starts[len(ins)] = true
	operands := make([]int, 0, 4)
	for i := 0; i < len(ins); {
		op := ins[i]
		var off int
		operands, off = ugo.ReadOperands(ugo.OpcodeOperands[op], ins[i+1:], operands[:0])
		at := func(what string, v int) string {
			return fmt.Sprintf("%s: %s at %d: %s %d out of range", name, ugo.OpcodeNames[op], i, what, v)
		}
		switch op {
		case ugo.OpConstant, ugo.OpGetGlobal, ugo.OpSetGlobal:
			if operands[0] >= len(bc.Constants) {
				return at("constant index", operands[0])
			}
		case ugo.OpClosure:
			if operands[0] >= len(bc.Constants) {
				return at("constant index", operands[0])
			}
			if _, ok := bc.Constants[operands[0]].(*ugo.CompiledFunction); !ok {
				return at("closure constant is not a function", operands[0])
			}
		case ugo.OpGetLocal, ugo.OpSetLocal, ugo.OpDefineLocal, ugo.OpGetLocalPtr:
			if operands[0] >= f.NumLocals {
				return at("local index", operands[0])
			}
		case ugo.OpGetBuiltin:
			if operands[0] >= len(ugo.BuiltinObjects) || ugo.BuiltinObjects[operands[0]] == nil {
				return at("builtin index", operands[0])
			}
		case ugo.OpJump, ugo.OpJumpFalsy, ugo.OpAndJump, ugo.OpOrJump:
			if !starts[operands[0]] {
				return at("jump target (not an instruction boundary)", operands[0])
			}
		case ugo.OpSetupTry:
			for _, t := range operands {
				if t != 0 && !starts[t] {
					return at("try target (not an instruction boundary)", t)
				}
			}
		case ugo.OpLoadModule:
			if operands[0] >= len(bc.Constants) {
				return at("constant index", operands[0])
			}
			if operands[1] >= bc.NumModules {
				return at("module index", operands[1])
			}
		case ugo.OpStoreModule:
			if operands[0] >= bc.NumModules {
				return at("module index", operands[0])
			}
		case ugo.OpReturn:
			if operands[0] > 1 {
				return at("return count", operands[0])
			}
		case ugo.OpThrow:
			if operands[0] > 1 {
				return at("throw kind", operands[0])
			}
		}
		i += 1 + off
	}
	return ""
}

// Fingerprint is a structural digest of everything reachable from bc: main and
// constant functions (instructions, locals, params, source maps), constants
// (canonical value text), file set (names, sizes, line tables) and NumModules.
// Two fingerprints are equal iff the bytecodes are structurally identical.
func Fingerprint(bc *ugo.Bytecode) string {
	var sb strings.Builder
	fp := func(f *ugo.CompiledFunction) {
		fmt.Fprintf(&sb, "F[%x|p%d|l%d|v%v|", f.Instructions, f.NumParams, f.NumLocals, f.Variadic)
		keys := make([]int, 0, len(f.SourceMap))
		for k := range f.SourceMap {
			keys = append(keys, k)
		}
		sort.Ints(keys)
		for _, k := range keys {
			fmt.Fprintf(&sb, "%d:%d,", k, f.SourceMap[k])
		}
		fmt.Fprintf(&sb, "|free%d]", len(f.Free))
	}
	if bc.Main != nil {
		fp(bc.Main)
	}
	for _, c := range bc.Constants {
		if f, ok := c.(*ugo.CompiledFunction); ok {
			fp(f)
		} else {
			sb.WriteString(uv.Repr(c))
		}
		sb.WriteByte(';')
	}
	fmt.Fprintf(&sb, "|mods%d|", bc.NumModules)
	if bc.FileSet != nil {
		fmt.Fprintf(&sb, "fs%d:", bc.FileSet.Base)
		for _, f := range bc.FileSet.Files {
			if f != nil {
				fmt.Fprintf(&sb, "(%s,%d,%d,%v)", f.Name, f.Base, f.Size, f.Lines)
			}
		}
	}
	return sb.String()
}

// DeepFingerprint renders everything reachable from bc - exported or not - by reflection: any field a run writes
// (a hidden cache, a "last used" slot) changes it. Function values are rendered as nil/non-nil, values of the
// packages sync and sync/atomic are skipped (locks and counters are not the program), map keys are sorted, pointers
// are followed once.
func DeepFingerprint(bc *ugo.Bytecode) string {
	var sb strings.Builder
	seen := map[uintptr]int{}
	deepWalk(&sb, seen, reflect.ValueOf(bc), 0)
	return sb.String()
}

func deepWalk(sb *strings.Builder, seen map[uintptr]int, v reflect.Value, depth int) {
	if depth > 200 {
		sb.WriteString("<deep>")
		return
	}
	if !v.IsValid() {
		sb.WriteString("<invalid>")
		return
	}
	t := v.Type()
	if p := t.PkgPath(); p == "sync" || p == "sync/atomic" || strings.HasSuffix(p, "/vshim/sync") || strings.HasSuffix(p, "/vshim/atomic") {
		sb.WriteString("<sync>")
		return
	}
	switch v.Kind() {
	case reflect.Bool:
		fmt.Fprintf(sb, "%v", v.Bool())
	case reflect.Int, reflect.Int8, reflect.Int16, reflect.Int32, reflect.Int64:
		fmt.Fprintf(sb, "%d", v.Int())
	case reflect.Uint, reflect.Uint8, reflect.Uint16, reflect.Uint32, reflect.Uint64, reflect.Uintptr:
		fmt.Fprintf(sb, "%d", v.Uint())
	case reflect.Float32, reflect.Float64:
		fmt.Fprintf(sb, "%x", math.Float64bits(v.Float()))
	case reflect.Complex64, reflect.Complex128:
		fmt.Fprintf(sb, "%v", v.Complex())
	case reflect.String:
		fmt.Fprintf(sb, "%q", v.String())
	case reflect.Func, reflect.Chan, reflect.UnsafePointer:
		fmt.Fprintf(sb, "<%s nil=%v>", v.Kind(), v.IsNil())
	case reflect.Interface:
		if v.IsNil() {
			sb.WriteString("<nil>")
			return
		}
		fmt.Fprintf(sb, "(%s)", v.Elem().Type())
		deepWalk(sb, seen, v.Elem(), depth+1)
	case reflect.Ptr:
		if v.IsNil() {
			sb.WriteString("<nil>")
			return
		}
		if id, ok := seen[v.Pointer()]; ok {
			fmt.Fprintf(sb, "<ptr#%d>", id)
			return
		}
		seen[v.Pointer()] = len(seen)
		sb.WriteString("&")
		deepWalk(sb, seen, v.Elem(), depth+1)
	case reflect.Slice, reflect.Array:
		if v.Kind() == reflect.Slice && v.IsNil() {
			sb.WriteString("<nil>")
			return
		}
		sb.WriteString("[")
		for i := 0; i < v.Len(); i++ {
			deepWalk(sb, seen, v.Index(i), depth+1)
			sb.WriteString(",")
		}
		sb.WriteString("]")
	case reflect.Map:
		if v.IsNil() {
			sb.WriteString("<nil>")
			return
		}
		type kv struct {
			k string
			v reflect.Value
		}
		var kvs []kv
		it := v.MapRange()
		for it.Next() {
			var kb strings.Builder
			deepWalk(&kb, seen, it.Key(), depth+1)
			kvs = append(kvs, kv{kb.String(), it.Value()})
		}
		sort.Slice(kvs, func(i, j int) bool { return kvs[i].k < kvs[j].k })
		sb.WriteString("map{")
		for _, e := range kvs {
			sb.WriteString(e.k)
			sb.WriteString(":")
			deepWalk(sb, seen, e.v, depth+1)
			sb.WriteString(",")
		}
		sb.WriteString("}")
	case reflect.Struct:
		fmt.Fprintf(sb, "%s{", t.Name())
		for i := 0; i < v.NumField(); i++ {
			sb.WriteString(t.Field(i).Name)
			sb.WriteString(":")
			deepWalk(sb, seen, v.Field(i), depth+1)
			sb.WriteString(";")
		}
		sb.WriteString("}")
	default:
		fmt.Fprintf(sb, "<%s>", v.Kind())
	}
}
