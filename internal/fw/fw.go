// Package fw is the small orchestration layer shared by all checks: sharding of
// an enumerated space over worker processes, result merging, known-finding
// matching, evidence and replay files.
package fw

import (
	"bufio"
	"bytes"
	"crypto/sha1"
	"encoding/hex"
	"encoding/json"
	"fmt"
	"os"
	"os/exec"
	"path/filepath"
	"runtime"
	"sort"
	"strconv"
	"strings"
	"sync"
	"sync/atomic"
	"time"
)

// Check is one registered property check.
type Check struct {
	ID    string
	Level string // evidence level
	Rule  string // how cases are enumerated and what makes one non-trivial
	// Run enumerates the whole declared space of the tier; it must call
	// c.Next() once per case and only evaluate cases for which it returns true.
	Run         func(c *Ctx)
	Assumptions []string
	// Shards overrides the number of worker processes (0 = number of CPUs).
	Shards int
	// MarkCases makes the worker record the key of the case it is about to run
	// so that a fatal runtime error of the worker can be attributed to it.
	MarkCases bool
	// WorkerEnv is added to the environment of workers.
	WorkerEnv []string
	// MemLimitKB is applied with ulimit -v to workers when > 0.
	MemLimitKB int
	// QuickBudget / ThoroughBudget are internal deadlines; a run that hits one
	// ends with exhaustive:false and exit 0.
	QuickBudget, ThoroughBudget time.Duration
	// CaseTimeout (with MarkCases): a marked case that does not return within
	// this time makes the worker exit; the case is reported and the worker resumed.
	CaseTimeout time.Duration
}

var registry = map[string]*Check{}

// Register adds a check.
func Register(ch *Check) { registry[ch.ID] = ch }

// Violation is one case on which the oracle failed.
type Violation struct {
	Key    string `json:"key"`    // specific identity of the failing case
	What   string `json:"what"`   // one line
	Family string `json:"family"` // family of the enumeration it belongs to
	Detail any    `json:"detail,omitempty"`
	Flaky  bool   `json:"flaky,omitempty"`
}

// FamilyStat counts one family of the enumeration.
type FamilyStat struct {
	Name       string `json:"name"`
	Bound      string `json:"bound,omitempty"`
	Enumerated int64  `json:"enumerated"`
	Evaluated  int64  `json:"evaluated"`
	Nontrivial int64  `json:"nontrivial"`
	Complete   bool   `json:"complete"`
}

// Result is what one worker reports.
type Result struct {
	Evaluations int64                  `json:"evaluations"`
	Nontrivial  int64                  `json:"nontrivial"`
	States      int64                  `json:"states"`
	Transitions int64                  `json:"transitions"`
	Traces      int64                  `json:"traces"`
	Families    map[string]*FamilyStat `json:"families"`
	Samples     map[string][]any       `json:"samples"`
	Violations  []Violation            `json:"violations"`
	Outcomes    map[string]int64       `json:"outcomes"`
	Counters    map[string]int64       `json:"counters"`
	Expired     bool                   `json:"expired"`
	Notes       []string               `json:"notes"`
	Infra       []string               `json:"infra"` // infrastructure anomalies
}

// Ctx is handed to a check's Run in a worker.
type Ctx struct {
	Prop     string
	Tier     string
	Shard    int
	NShards  int
	Seed     int64
	Deadline time.Time
	Only     string // when set, only the case with this key is run (replay)

	res      Result
	idx      int64
	fam      *FamilyStat
	markFile *os.File
	violFile *os.File
	ckptPath string
	from     int64 // resume: cases with a smaller index were handled by an earlier incarnation of this worker
	markAt   atomic.Int64
	maxViol  int
	expired  bool
	marks    int64
	// stall watchdog (checks without MarkCases): last owned index, its time, the last key seen by Skip
	progIdx atomic.Int64
	progAt  atomic.Int64
	progKey atomic.Pointer[string]
}

// Thorough reports whether the thorough tier is running.
func (c *Ctx) Thorough() bool { return c.Tier == "thorough" }

// Family switches the current family (for counting and samples).
func (c *Ctx) Family(name, bound string) {
	if c.res.Families == nil {
		c.res.Families = map[string]*FamilyStat{}
	}
	f := c.res.Families[name]
	if f == nil {
		f = &FamilyStat{Name: name, Bound: bound, Complete: true}
		c.res.Families[name] = f
	}
	c.fam = f
}

// Next counts one enumerated case and reports whether this worker owns it.
func (c *Ctx) Next() bool {
	i := c.idx
	c.idx++
	if c.fam != nil {
		c.fam.Enumerated++
	}
	if c.expired {
		return false
	}
	if (i+c.Seed)%int64(c.NShards) != int64(c.Shard) {
		return false
	}
	if i < c.from {
		return false
	}
	if i&0x3f == 0 && time.Now().After(c.Deadline) {
		c.Expire()
		return false
	}
	c.res.Evaluations++
	if c.fam != nil {
		c.fam.Evaluated++
	}
	c.progIdx.Store(i)
	c.progAt.Store(time.Now().UnixNano())
	return true
}

// Skip reports whether a case key is excluded by --only (replay of one case). As every check calls it with the key
// of the case it is about to run, it also is the progress signal of the stall watchdog.
func (c *Ctx) Skip(key string) bool {
	c.progKey.Store(&key)
	c.progAt.Store(time.Now().UnixNano())
	return c.Only != "" && c.Only != key
}

// Expire marks the run as cut short by the internal deadline.
func (c *Ctx) Expire() {
	c.expired = true
	c.res.Expired = true
	if c.fam != nil {
		c.fam.Complete = false
	}
}

// Expired reports whether the internal deadline has passed.
func (c *Ctx) Expired() bool {
	if !c.expired && time.Now().After(c.Deadline) {
		c.Expire()
	}
	return c.expired
}

// Nontrivial counts a distinct non-trivial case.
func (c *Ctx) Nontrivial() {
	c.res.Nontrivial++
	if c.fam != nil {
		c.fam.Nontrivial++
	}
}

// AddEval counts extra evaluations inside one case.
func (c *Ctx) AddEval(n int64) { c.res.Evaluations += n }

// AddStates, AddTransitions, AddTraces feed model_checking evidence.
func (c *Ctx) AddStates(n int64)      { c.res.States += n }
func (c *Ctx) AddTransitions(n int64) { c.res.Transitions += n }
func (c *Ctx) AddTraces(n int64)      { c.res.Traces += n }

// Outcome counts a distinct observed outcome class.
func (c *Ctx) Outcome(k string) {
	if c.res.Outcomes == nil {
		c.res.Outcomes = map[string]int64{}
	}
	c.res.Outcomes[k]++
}

// Count bumps a named counter reported in the evidence.
func (c *Ctx) Count(k string, n int64) {
	if c.res.Counters == nil {
		c.res.Counters = map[string]int64{}
	}
	c.res.Counters[k] += n
}

// Sample keeps up to three samples per family.
func (c *Ctx) Sample(v any) {
	name := "default"
	if c.fam != nil {
		name = c.fam.Name
	}
	if c.res.Samples == nil {
		c.res.Samples = map[string][]any{}
	}
	if len(c.res.Samples[name]) < 3 {
		c.res.Samples[name] = append(c.res.Samples[name], v)
	}
}

// Note records a free-text note for the evidence.
func (c *Ctx) Note(format string, a ...any) {
	c.res.Notes = append(c.res.Notes, fmt.Sprintf(format, a...))
}

// Infra records an infrastructure anomaly (never a violation; exit code 2).
func (c *Ctx) Infra(format string, a ...any) {
	if len(c.res.Infra) < 50 {
		c.res.Infra = append(c.res.Infra, fmt.Sprintf(format, a...))
	}
}

// Mark records the key of the case about to run (crash/hang attribution). It
// must be called after Next() returned true for that case.
func (c *Ctx) Mark(key string) {
	if c.markFile != nil {
		c.markFile.WriteAt([]byte(fmt.Sprintf("%-12d%-8d%s\n", c.idx-1, len(key), key)), 0)
		c.markAt.Store(time.Now().UnixNano())
		c.marks++
		if c.marks%200 == 0 {
			c.checkpoint()
		}
	}
}

// Checkpoint saves the counters so that a worker that dies on the next cases loses nothing of what it has counted.
func (c *Ctx) Checkpoint() { c.checkpoint() }

func (c *Ctx) checkpoint() {
	if c.ckptPath == "" {
		return
	}
	if b, err := json.Marshal(&c.res); err == nil {
		os.WriteFile(c.ckptPath+".tmp", b, 0o644)
		os.Rename(c.ckptPath+".tmp", c.ckptPath)
	}
}

// Violation records a failing case.
func (c *Ctx) Violation(key, what string, detail any) {
	fam := ""
	if c.fam != nil {
		fam = c.fam.Name
	}
	if len(c.res.Violations) >= c.maxViol {
		c.Count("violations_not_listed", 1)
		return
	}
	v := Violation{Key: key, What: what, Family: fam, Detail: detail}
	if c.violFile != nil {
		// durable: the worker may die on a later case
		if b, err := json.Marshal(&v); err == nil {
			c.violFile.Write(append(b, '\n'))
			c.Count("violations_recorded", 1)
			return
		}
	}
	c.res.Violations = append(c.res.Violations, v)
}

// Stable runs f n times and reports whether all results are equal to the first.
func Stable(n int, f func() string) (string, bool) {
	first := f()
	for i := 1; i < n; i++ {
		if f() != first {
			return first, false
		}
	}
	return first, true
}

// Hash returns a short hex digest.
func Hash(s string) string {
	h := sha1.Sum([]byte(s))
	return hex.EncodeToString(h[:8])
}

// ---------------------------------------------------------------------------

// KnownFinding is one line of /verif/known_findings.jsonl.
type KnownFinding struct {
	Status   string   `json:"status"` // "known" | "fixed"
	Property string   `json:"property"`
	ID       string   `json:"id"`
	What     string   `json:"what"`
	Commit   string   `json:"commit,omitempty"`
	Keys     []string `json:"keys,omitempty"`
	KeysFile string   `json:"keys_file,omitempty"`
	Witness  any      `json:"witness,omitempty"`
}

func loadKnown(dir, prop string) ([]*KnownFinding, map[string]*KnownFinding, error) {
	f, err := os.Open(filepath.Join(dir, "known_findings.jsonl"))
	if err != nil {
		if os.IsNotExist(err) {
			return nil, map[string]*KnownFinding{}, nil
		}
		return nil, nil, err
	}
	defer f.Close()
	var list []*KnownFinding
	byKey := map[string]*KnownFinding{}
	sc := bufio.NewScanner(f)
	sc.Buffer(make([]byte, 1<<20), 1<<26)
	for sc.Scan() {
		line := strings.TrimSpace(sc.Text())
		if line == "" || strings.HasPrefix(line, "#") {
			continue
		}
		var k KnownFinding
		if err := json.Unmarshal([]byte(line), &k); err != nil {
			return nil, nil, fmt.Errorf("known_findings.jsonl: %v", err)
		}
		if k.Property != prop || k.Status != "known" {
			continue
		}
		kk := k
		list = append(list, &kk)
		for _, key := range kk.Keys {
			byKey[key] = &kk
		}
		if kk.KeysFile != "" {
			b, err := os.ReadFile(filepath.Join(dir, kk.KeysFile))
			if err != nil {
				return nil, nil, err
			}
			for _, key := range strings.Split(string(b), "\n") {
				if key = strings.TrimSpace(key); key != "" {
					byKey[key] = &kk
				}
			}
		}
	}
	return list, byKey, sc.Err()
}

// ---------------------------------------------------------------------------

// Main is the entry point of cmd/vcheck.
func Main() {
	args := os.Args[1:]
	if len(args) == 0 {
		fmt.Fprintln(os.Stderr, "usage: vcheck <Cxx> [--tier quick|thorough] [--list-failing] [--only key]")
		os.Exit(2)
	}
	if args[0] == "list" {
		var ids []string
		for id := range registry {
			ids = append(ids, id)
		}
		sort.Strings(ids)
		fmt.Println(strings.Join(ids, " "))
		return
	}
	id := args[0]
	ch := registry[id]
	if ch == nil {
		fmt.Fprintf(os.Stderr, "unknown check %s\n", id)
		os.Exit(2)
	}
	tier := os.Getenv("VERIF_TIER")
	if tier == "" {
		tier = "quick"
	}
	var shard, out, only string
	var from int64
	listFailing := false
	for i := 1; i < len(args); i++ {
		switch args[i] {
		case "--tier":
			i++
			tier = args[i]
		case "--shard":
			i++
			shard = args[i]
		case "--out":
			i++
			out = args[i]
		case "--only":
			i++
			only = args[i]
		case "--from":
			i++
			from, _ = strconv.ParseInt(args[i], 10, 64)
		case "--replay":
			i++
			b, err := os.ReadFile(args[i])
			if err != nil {
				fmt.Fprintln(os.Stderr, err)
				os.Exit(2)
			}
			var r struct {
				Key  string `json:"key"`
				Tier string `json:"tier"`
			}
			json.Unmarshal(b, &r)
			only = r.Key
			if r.Tier != "" {
				tier = r.Tier
			}
		case "--list-failing":
			listFailing = true
		}
	}
	if tier != "quick" && tier != "thorough" {
		fmt.Fprintln(os.Stderr, "bad tier")
		os.Exit(2)
	}
	seed, _ := strconv.ParseInt(os.Getenv("VERIF_SEED"), 10, 64)
	if seed < 0 {
		seed = -seed
	}
	if shard != "" {
		worker(ch, tier, shard, out, only, seed, from)
		return
	}
	os.Exit(parent(ch, tier, only, seed, listFailing))
}

// StallTimeout is the time without a new case after which a worker of a check without MarkCases gives up on the
// case in progress (see the stall watchdog in worker).
var StallTimeout = 120 * time.Second

func budget(ch *Check, tier string) time.Duration {
	b := ch.QuickBudget
	if tier == "thorough" {
		b = ch.ThoroughBudget
	}
	if b == 0 {
		if tier == "thorough" {
			b = 30 * time.Minute
		} else {
			b = 4 * time.Minute
		}
	}
	if s := os.Getenv("VERIF_BUDGET_S"); s != "" {
		if n, err := strconv.Atoi(s); err == nil {
			b = time.Duration(n) * time.Second
		}
	}
	return b
}

func worker(ch *Check, tier, shard, out, only string, seed, from int64) {
	var s, n int
	fmt.Sscanf(shard, "%d/%d", &s, &n)
	c := &Ctx{Prop: ch.ID, Tier: tier, Shard: s, NShards: n, Seed: seed, Only: only, from: from,
		Deadline: time.Now().Add(budget(ch, tier)), maxViol: 2000}
	if d := os.Getenv("VERIF_DEADLINE_UNIX"); d != "" {
		if u, err := strconv.ParseInt(d, 10, 64); err == nil {
			c.Deadline = time.Unix(u, 0)
		}
	}
	if ch.MarkCases && out != "" {
		if f, err := os.Create(out + ".mark"); err == nil {
			c.markFile = f
		}
		if f, err := os.OpenFile(out+".viol", os.O_APPEND|os.O_CREATE|os.O_WRONLY, 0o644); err == nil {
			c.violFile = f
		}
		c.ckptPath = out + ".ckpt"
		c.maxViol = 1 << 30
		if ch.CaseTimeout > 0 {
			c.markAt.Store(time.Now().UnixNano())
			go func() {
				for {
					time.Sleep(200 * time.Millisecond)
					if time.Since(time.Unix(0, c.markAt.Load())) > ch.CaseTimeout {
						os.Exit(97) // the marked case does not return
					}
				}
			}()
		}
	}
	if !ch.MarkCases && out != "" {
		// Stall watchdog: a case that blocks in Go code (a lock left locked, a channel nobody writes) is beyond the
		// VM watchdog of internal/run. When no case has been started for StallTimeout, the case in progress is
		// recorded like a marked case, what was found so far is made durable, and the worker exits; the parent
		// reports "did not return" for that case and resumes behind it.
		c.ckptPath = out + ".ckpt"
		c.progAt.Store(time.Now().UnixNano())
		go func() {
			for {
				time.Sleep(time.Second)
				if time.Since(time.Unix(0, c.progAt.Load())) <= StallTimeout {
					continue
				}
				key := "(case without key)"
				if k := c.progKey.Load(); k != nil {
					key = *k
				}
				os.WriteFile(out+".mark", []byte(fmt.Sprintf("%-12d%-8d%s\n", c.progIdx.Load(), len(key), key)), 0o644)
				if f, err := os.OpenFile(out+".viol", os.O_APPEND|os.O_CREATE|os.O_WRONLY, 0o644); err == nil {
					for _, v := range c.res.Violations {
						if b, err := json.Marshal(v); err == nil {
							f.Write(append(b, '\n'))
						}
					}
					f.Close()
				}
				c.checkpoint()
				os.Exit(97)
			}
		}()
	}
	ch.Run(c)
	c.markAt.Store(time.Now().Add(time.Hour).UnixNano())
	c.progAt.Store(time.Now().Add(24 * time.Hour).UnixNano())
	b, err := json.Marshal(&c.res)
	if err != nil {
		fmt.Fprintln(os.Stderr, "marshal result:", err)
		os.Exit(3)
	}
	if out == "" {
		os.Stdout.Write(b)
		return
	}
	if err := os.WriteFile(out, b, 0o644); err != nil {
		fmt.Fprintln(os.Stderr, err)
		os.Exit(3)
	}
}

func verifDir() string {
	if d := os.Getenv("VERIF_DIR"); d != "" {
		return d
	}
	wd, _ := os.Getwd()
	return wd
}

func parent(ch *Check, tier, only string, seed int64, listFailing bool) int {
	start := time.Now()
	dir := verifDir()
	n := ch.Shards
	if n == 0 {
		n = runtime.NumCPU()
	}
	if only != "" {
		n = 1
	}
	tmp, err := os.MkdirTemp(filepath.Join(dir, ".work"), ch.ID+"-")
	if err != nil {
		os.MkdirAll(filepath.Join(dir, ".work"), 0o755)
		tmp, err = os.MkdirTemp(filepath.Join(dir, ".work"), ch.ID+"-")
		if err != nil {
			fmt.Fprintln(os.Stderr, err)
			return 2
		}
	}
	defer os.RemoveAll(tmp)
	self, _ := os.Executable()

	type wres struct {
		res     Result
		err     error
		stderr  string
		crashes []Violation // crash/hang attributions and durable violations
		carried []Result    // counters of dead worker incarnations
	}
	results := make([]wres, n)
	var wg sync.WaitGroup
	for i := 0; i < n; i++ {
		wg.Add(1)
		go func(i int) {
			defer wg.Done()
			out := filepath.Join(tmp, fmt.Sprintf("w%d.json", i))
			r := &results[i]
			deadline := time.Now().Add(budget(ch, tier))
			var from int64
			for restarts := 0; ; restarts++ {
				wargs := []string{ch.ID, "--tier", tier, "--shard", fmt.Sprintf("%d/%d", i, n), "--out", out, "--from", strconv.FormatInt(from, 10)}
				if only != "" {
					wargs = append(wargs, "--only", only)
				}
				var cmd *exec.Cmd
				if ch.MemLimitKB > 0 {
					sh := fmt.Sprintf("ulimit -v %d; exec \"$0\" \"$@\"", ch.MemLimitKB)
					cmd = exec.Command("/bin/bash", append([]string{"-c", sh, self}, wargs...)...)
				} else {
					cmd = exec.Command(self, wargs...)
				}
				cmd.Env = append(os.Environ(), "GOMAXPROCS=2", "VERIF_DIR="+dir, fmt.Sprintf("VERIF_DEADLINE_UNIX=%d", deadline.Unix()))
				cmd.Env = append(cmd.Env, ch.WorkerEnv...)
				var eb bytes.Buffer
				cmd.Stderr = &eb
				cmd.Stdin = nil
				os.Remove(out + ".mark")
				err := cmd.Run()
				r.stderr = eb.String()
				if err == nil {
					b, e := os.ReadFile(out)
					if e != nil {
						r.err = e
					} else if e := json.Unmarshal(b, &r.res); e != nil {
						r.err = e
					}
					break
				}
				// the worker died: attribute to the marked case and resume after it
				var markIdx int64 = -1
				mark := ""
				if mb, e := os.ReadFile(out + ".mark"); e == nil && len(mb) > 20 {
					var l int
					if _, e := fmt.Sscanf(string(mb[:20]), "%d %d", &markIdx, &l); e == nil && 20+l <= len(mb) {
						mark = string(mb[20 : 20+l])
					}
				}
				stalled := false
				if ee, ok := err.(*exec.ExitError); ok && ee.ExitCode() == 97 && !ch.MarkCases {
					stalled = true
				}
				if (!ch.MarkCases && !stalled) || mark == "" || markIdx < from || restarts > 20000 {
					r.err = err
					break
				}
				tail := r.stderr
				if len(tail) > 1500 {
					tail = tail[:700] + "\n...\n" + tail[len(tail)-700:]
				}
				what := "worker process died (fatal runtime error) while running this case"
				if ee, ok := err.(*exec.ExitError); ok && ee.ExitCode() == 97 {
					what = fmt.Sprintf("the call did not return within %s", ch.CaseTimeout)
					if stalled {
						what = fmt.Sprintf("the case did not return within %s (blocked outside the VM: a lock left locked or a channel nobody serves)", StallTimeout)
					}
				}
				r.crashes = append(r.crashes, Violation{Key: mark, What: what, Detail: map[string]any{"stderr": tail, "error": err.Error()}})
				// keep the counters of the dead incarnation (last checkpoint; a lower bound)
				if cb, e := os.ReadFile(out + ".ckpt"); e == nil {
					var cr Result
					if json.Unmarshal(cb, &cr) == nil {
						r.carried = append(r.carried, cr)
					}
					os.Remove(out + ".ckpt")
				}
				from = markIdx + 1
				if stalled && time.Now().After(deadline) {
					// out of budget: what the dead incarnations found is kept, the rest of the shard is not enumerated
					r.res.Expired = true
					break
				}
			}
			if vb, e := os.ReadFile(out + ".viol"); e == nil {
				for _, line := range bytes.Split(vb, []byte{'\n'}) {
					if len(bytes.TrimSpace(line)) == 0 {
						continue
					}
					var v Violation
					if json.Unmarshal(line, &v) == nil {
						r.crashes = append(r.crashes, v)
					}
				}
			}
		}(i)
	}
	wg.Wait()

	// merge
	var m Result
	m.Families = map[string]*FamilyStat{}
	m.Samples = map[string][]any{}
	m.Outcomes = map[string]int64{}
	m.Counters = map[string]int64{}
	infra := []string{}
	restarts := 0
	for i := range results {
		r := &results[i]
		m.Violations = append(m.Violations, r.crashes...)
		restarts += len(r.carried)
		for _, cr := range r.carried {
			m.Evaluations += cr.Evaluations
			m.Nontrivial += cr.Nontrivial
			for k, f := range cr.Families {
				mf := m.Families[k]
				if mf == nil {
					mf = &FamilyStat{Name: f.Name, Bound: f.Bound, Complete: true}
					m.Families[k] = mf
				}
				mf.Evaluated += f.Evaluated
				mf.Nontrivial += f.Nontrivial
			}
		}
		if r.err != nil {
			tail := r.stderr
			if len(tail) > 3000 {
				tail = tail[:1500] + "\n...\n" + tail[len(tail)-1500:]
			}
			infra = append(infra, fmt.Sprintf("worker %d failed: %v\n%s", i, r.err, tail))
			continue
		}
		m.Evaluations += r.res.Evaluations
		m.Nontrivial += r.res.Nontrivial
		m.States += r.res.States
		m.Transitions += r.res.Transitions
		m.Traces += r.res.Traces
		m.Expired = m.Expired || r.res.Expired
		m.Violations = append(m.Violations, r.res.Violations...)
		m.Notes = append(m.Notes, r.res.Notes...)
		infra = append(infra, r.res.Infra...)
		for k, v := range r.res.Outcomes {
			m.Outcomes[k] += v
		}
		for k, v := range r.res.Counters {
			m.Counters[k] += v
		}
		for k, f := range r.res.Families {
			mf := m.Families[k]
			if mf == nil {
				mf = &FamilyStat{Name: f.Name, Bound: f.Bound, Complete: true}
				m.Families[k] = mf
			}
			// every worker enumerates the whole space; evaluated counts add up
			if f.Enumerated > mf.Enumerated {
				mf.Enumerated = f.Enumerated
			}
			mf.Evaluated += f.Evaluated
			mf.Nontrivial += f.Nontrivial
			mf.Complete = mf.Complete && f.Complete
		}
		for k, s := range r.res.Samples {
			for _, x := range s {
				if len(m.Samples[k]) < 3 {
					m.Samples[k] = append(m.Samples[k], x)
				}
			}
		}
	}
	sort.Slice(m.Violations, func(i, j int) bool { return m.Violations[i].Key < m.Violations[j].Key })

	if listFailing {
		for _, v := range m.Violations {
			fmt.Println(v.Key)
		}
		return 0
	}

	// known findings
	klist, byKey, err := loadKnown(dir, ch.ID)
	if err != nil {
		infra = append(infra, err.Error())
	}
	hit := map[string]int{}
	var fresh []Violation
	for _, v := range m.Violations {
		if k := byKey[v.Key]; k != nil {
			hit[k.ID]++
			continue
		}
		fresh = append(fresh, v)
	}
	for _, k := range klist {
		if hit[k.ID] > 0 {
			fmt.Printf("KNOWN-FINDING: property=%s %s: %s (%d listed case(s) reproduced)\n", ch.ID, k.ID, k.What, hit[k.ID])
		}
	}

	// replay files for fresh violations
	rdir := filepath.Join(dir, "replays", ch.ID)
	exit := 0
	seen := map[string]bool{}
	printed := 0
	var more *os.File
	for _, v := range fresh {
		if seen[v.Key] {
			continue
		}
		seen[v.Key] = true
		exit = 1
		if len(seen) > 300 {
			// beyond the first 300 only the keys are kept (one line each)
			if more == nil {
				os.MkdirAll(rdir, 0o755)
				more, _ = os.Create(filepath.Join(rdir, "more-violations.jsonl"))
			}
			if more != nil {
				b, _ := json.Marshal(map[string]any{"key": v.Key, "what": v.What})
				more.Write(append(b, '\n'))
			}
			continue
		}
		os.MkdirAll(rdir, 0o755)
		p := filepath.Join(rdir, Hash(v.Key)+".json")
		b, _ := json.MarshalIndent(map[string]any{"property": ch.ID, "tier": tier, "key": v.Key, "what": v.What,
			"family": v.Family, "detail": v.Detail,
			"replay_cmd": fmt.Sprintf("cd /verif && ./run.sh %s %s --only '<key>'   (or --replay this-file)", ch.ID, tier)}, "", " ")
		os.WriteFile(p, b, 0o644)
		if printed < 40 {
			fmt.Printf("VIOLATION property=%s replay=%s\n", ch.ID, p)
			fmt.Printf("  what: %s\n  key: %s\n", v.What, trunc(v.Key, 400))
			printed++
		}
		exit = 1
	}
	if len(seen) > printed {
		fmt.Printf("(%d further violations written to %s)\n", len(seen)-printed, rdir)
	}

	// evidence
	samples := []any{}
	var fams []*FamilyStat
	var fnames []string
	for k := range m.Families {
		fnames = append(fnames, k)
	}
	sort.Strings(fnames)
	for _, k := range fnames {
		fams = append(fams, m.Families[k])
		for _, s := range m.Samples[k] {
			samples = append(samples, map[string]any{"family": k, "case": s})
		}
	}
	if len(fnames) == 0 {
		for _, s := range m.Samples["default"] {
			samples = append(samples, s)
		}
	}
	exhaustive := !m.Expired && len(infra) == 0 && only == ""
	cov := map[string]any{
		"evaluations":         m.Evaluations,
		"distinct_nontrivial": m.Nontrivial,
		"rule":                ch.Rule,
		"samples":             samples,
		"exhaustive":          exhaustive,
		"families":            fams,
		"known_findings_hit":  hit,
		"workers":             n,
	}
	if len(m.Outcomes) > 0 {
		cov["distinct_outcomes"] = m.Outcomes
	}
	if ch.MarkCases {
		cov["worker_restarts_after_crash_or_hang"] = restarts
	}
	if len(m.Counters) > 0 {
		cov["counters"] = m.Counters
	}
	if len(m.Notes) > 0 {
		cov["notes"] = dedup(m.Notes)
	}
	if ch.Level == "model_checking" {
		cov["states"] = m.States
		cov["transitions"] = m.Transitions
		cov["traces_validated_against_impl"] = m.Traces
	}
	if m.Expired {
		cov["explanation"] = "internal deadline reached before the declared space was completed; only the families marked complete were fully enumerated"
	}
	ev := map[string]any{
		"property_id": ch.ID,
		"tier":        tier,
		"seed":        seed,
		"level":       ch.Level,
		"coverage":    cov,
		"assumptions": assumptionsOf(ch),
		"wall_s":      time.Since(start).Seconds(),
		"violations":  len(seen),
	}
	if only == "" {
		os.MkdirAll(filepath.Join(dir, "evidence"), 0o755)
		b, _ := json.MarshalIndent(ev, "", " ")
		if err := os.WriteFile(filepath.Join(dir, "evidence", ch.ID+".json"), append(b, '\n'), 0o644); err != nil {
			fmt.Fprintln(os.Stderr, err)
			return 2
		}
	} else {
		for _, v := range m.Violations {
			b, _ := json.MarshalIndent(v, "", " ")
			fmt.Println(string(b))
		}
	}
	fmt.Printf("%s %s: evaluations=%d nontrivial=%d states=%d transitions=%d violations=%d known=%d exhaustive=%v wall=%.1fs\n",
		ch.ID, tier, m.Evaluations, m.Nontrivial, m.States, m.Transitions, len(seen), len(m.Violations)-len(fresh), exhaustive, time.Since(start).Seconds())
	if len(infra) > 0 {
		for _, s := range infra {
			fmt.Fprintln(os.Stderr, "INFRASTRUCTURE:", s)
		}
		if exit == 0 {
			return 2
		}
	}
	return exit
}

func trunc(s string, n int) string {
	if len(s) > n {
		return s[:n] + "…"
	}
	return s
}

func dedup(in []string) []string {
	seen := map[string]bool{}
	var out []string
	for _, s := range in {
		if !seen[s] {
			seen[s] = true
			out = append(out, s)
		}
	}
	return out
}

// assumptionsOf returns the check's stated assumptions plus what every check trusts.
func assumptionsOf(ch *Check) []string {
	out := append([]string{}, ch.Assumptions...)
	return append(out, "trusted: the Go toolchain and standard library, and this check's own enumerator and oracle as described in coverage.rule; nothing is claimed outside the stated alphabet and bounds")
}
