// Package c14 decides C14: calling a script function from Go through an
// Invoker equals calling it inside the script.
package c14

import (
	"fmt"
	"reflect"
	"strings"

	"github.com/ozanh/ugo"

	"verif/internal/fw"
	"verif/internal/run"
	"verif/internal/uv"
)

func init() {
	fw.Register(&fw.Check{
		ID:    "C14",
		Level: "model_checking",
		Rule: "functions = 16 script functions (fixed 0-3 parameters, variadic, closure updating a captured counter, updating a global, recursive, throwing an error value / a string / a runtime error, importing and mutating a module, " +
			"returning a closure, calling back into Go, many locals with try/finally, default-less parameters read before write) x every argument tuple their parameters accept over a 6-value pool x " +
			"4 Go call paths (Invoke only; Acquire+Invoke+Release; Acquire+Release+Acquire+Invoke+Release; the same from a nested callback) x histories = every sequence of <= 1 (thorough 3) earlier pooled calls of 4 other functions " +
			"(more locals, handlers, an error, a plain one) x recovery on/off. Oracle: the Go path gives the same value or error name+message, the same captured-variable, global and module state and the same probe log as f(args...) written in the script. " +
			"states = distinct (function, history) pairs, transitions = Invoker operations, traces = comparisons; non-trivial = the child VM used by the call had been used before (pointer identity read by reflection)",
		Run: run14,
	})
}

type fn struct {
	name string
	def  string   // statements defining f (and its state)
	ar   [2]int   // min and max number of arguments (max -1: variadic, up to 3 extra)
	pool []string // argument pool override
	post string   // expression observing state afterwards
	use  string   // how the result is used ("" = as is); %s is the call
}

var pool = []string{"0", "1", "2", `"s"`, "[1]", "undefined"}

var fns = []fn{
	{name: "fixed0", def: "f := func() { return 7 }", ar: [2]int{0, 0}},
	{name: "fixed1", def: "f := func(a) { return [a] }", ar: [2]int{1, 1}},
	{name: "fixed2", def: "f := func(a, b) { return [a, b] }", ar: [2]int{2, 2}},
	{name: "fixed3", def: "f := func(a, b, c) { d := a; return [c, b, d] }", ar: [2]int{3, 3}},
	{name: "variadic1", def: "f := func(a, ...r) { return [a, r, len(r)] }", ar: [2]int{1, -1}},
	{name: "variadic0", def: "f := func(...r) { r = append(r, 9); return r }", ar: [2]int{0, -1}},
	{name: "variadic2", def: "f := func(a, b, ...r) { return [b, a, r] }", ar: [2]int{2, -1}},
	{name: "counter", def: "n := 0; f := func(d) { n += d; return n }", ar: [2]int{1, 1}, pool: []string{"0", "1", "2"}, post: "n"},
	{name: "global", def: "f := func(v) { G = v; return [G] }", ar: [2]int{1, 1}, post: "G"},
	{name: "recursive", def: "var f; f = func(k) { if k <= 0 { return 0 }; return k + f(k - 1) }", ar: [2]int{1, 1}, pool: []string{"0", "1", "2", "50"}},
	{name: "thrower", def: "zero := 0; f := func(k) { try { if k == 1 { throw error(\"e\") }; if k == 2 { throw \"s\" }; if k == 0 { return 1 / zero } } finally { L(k) }; return k }", ar: [2]int{1, 1}, pool: []string{"0", "1", "2", `"s"`}},
	{name: "importer", def: "f := func() { m := import(\"cnt\"); return [m.inc(), m.inc()] }", ar: [2]int{0, 0}, post: "import(\"cnt\").inc()"},
	{name: "closure-result", def: "f := func(a) { b := [a]; return func() { b = append(b, 1); return b } }", ar: [2]int{1, 1}, use: "%s()"},
	{name: "calls-back", def: "g := func(y) { return [y, y] }; f := func(x) { return [CALL(g, x), x] }", ar: [2]int{1, 1}},
	{name: "locals-try", def: "f := func(a) { var (u, v, w); r := [u, v, w]; try { x := a; y := [x]; z := [y]; return [r, z] } finally { L(5) } }", ar: [2]int{1, 1}},
	{name: "shadow-params", def: "f := func(a, b) { if a { b := 5; a = b }; return [a, b] }", ar: [2]int{2, 2}},
}

var history = []string{
	"CALLP(func(a) { " + manyLocals() + " return v29 }, 1)",
	"try { CALLP(func() { try { throw \"h\" } finally { L(90) } }) } catch e { L(91) }",
	"CALLP(func(a, b, c) { try { return [a, b, c] } finally { L(92) } }, 7, 8, 9)",
	"CALLP(func() { return 1 })",
}

func manyLocals() string {
	var sb strings.Builder
	for i := 0; i < 30; i++ {
		fmt.Fprintf(&sb, "v%d := [a, %d];", i, i)
	}
	return sb.String()
}

func tuples(f fn) [][]string {
	p := pool
	if f.pool != nil {
		p = f.pool
	}
	max := f.ar[1]
	if max < 0 {
		max = f.ar[0] + 2
		if max > 3 {
			max = 3
		}
	}
	var out [][]string
	var rec func(cur []string)
	rec = func(cur []string) {
		if len(cur) >= f.ar[0] {
			out = append(out, append([]string{}, cur...))
		}
		if len(cur) == max {
			return
		}
		for _, v := range p {
			rec(append(cur, v))
		}
	}
	rec(nil)
	return out
}

type paths struct {
	seen     map[uintptr]bool
	recycled int
	ops      int64
}

func childPtr(inv *ugo.Invoker) uintptr {
	v := reflect.ValueOf(inv).Elem().FieldByName("child")
	if v.IsValid() && !v.IsNil() {
		return v.Pointer()
	}
	return 0
}

// call implements the Go call paths.
func (p *paths) call(variant int) func(c ugo.Call) (ugo.Object, error) {
	return func(c ugo.Call) (ugo.Object, error) {
		f := c.Get(0)
		var args []ugo.Object
		for i := 1; i < c.Len(); i++ {
			args = append(args, c.Get(i))
		}
		inv := ugo.NewInvoker(c.VM(), f)
		note := func() {
			if ptr := childPtr(inv); ptr != 0 {
				if p.seen[ptr] {
					p.recycled++
				}
				p.seen[ptr] = true
			}
		}
		switch variant {
		case 0:
			p.ops++
			r, err := inv.Invoke(args...)
			note()
			return r, err
		case 1:
			inv.Acquire()
			note()
			defer inv.Release()
			p.ops += 3
			return inv.Invoke(args...)
		default:
			// acquire, release and acquire again: the call runs on a child VM that has just been recycled
			inv.Acquire()
			note()
			inv.Release()
			inv.Acquire()
			note()
			defer inv.Release()
			p.ops += 5
			return inv.Invoke(args...)
		}
	}
}

func run14(c *fw.Ctx) {
	maxHist := 1
	if c.Thorough() {
		maxHist = 3
	}
	var hists [][]int
	var rec func(cur []int)
	rec = func(cur []int) {
		hists = append(hists, append([]int{}, cur...))
		if len(cur) == maxHist {
			return
		}
		for i := range history {
			rec(append(cur, i))
		}
	}
	rec(nil)
	argBuffer(c)
	repeatFamily(c)
	keptInvoker(c)
	for _, f := range fns {
		c.Family(f.name, fmt.Sprintf("%d argument tuples x 4 call paths x %d histories x recovery on/off", len(tuples(f)), len(hists)))
		for _, h := range hists {
			c.AddStates(1)
			for _, t := range tuples(f) {
				for variant := 0; variant < 4; variant++ {
					for _, rec := range []bool{true, false} {
						if !c.Next() {
							continue
						}
						one(c, f, h, t, variant, rec)
					}
				}
			}
		}
	}
}

// argBuffer: the Go caller re-uses one argument slice for two invocations and inspects it afterwards;
// in the script every call packs its own arguments.
func argBuffer(c *fw.Ctx) {
	c.Family("arg-buffer", "functions that retain or mutate their (variadic) parameters x Go caller re-using one argument slice for two invocations")
	defs := []string{
		"keep := []; f := func(a, ...r) { keep = append(keep, r); return len(r) }",
		"keep := []; f := func(...r) { keep = append(keep, r); return len(r) }",
		"keep := []; f := func(a, ...r) { if len(r) > 0 { r[0] = \"m\" }; keep = append(keep, r); return len(r) }",
		"keep := []; f := func(a, b) { keep = append(keep, [a, b]); a = \"m\"; b = \"m\"; return 2 }",
		"keep := []; f := func(a, b, ...r) { keep = append(keep, func() { return [a, b, r] }); return 0 }",
	}
	argsets := [][]string{{"1", "2"}, {"1", "2", "3"}, {"[1]", "[2]", "[3]", "[4]"}}
	for di, def := range defs {
		for ai, as := range argsets {
			for _, pooled := range []bool{false, true} {
				if !c.Next() {
					continue
				}
				if di == 3 && len(as) != 2 {
					continue // Go-side calls with too many arguments are lenient and not compared (property text)
				}
				key := fmt.Sprintf("arg-buffer def=%d args=%d pooled=%v", di, ai, pooled)
				if c.Skip(key) {
					continue
				}
				c.Nontrivial()
				c.AddStates(1)
				second := append([]string{}, as...)
				second[len(second)-1] = "\"changed\""
				obs := "[keep[0], keep[1]]"
				if di == 4 {
					obs = "[keep[0](), keep[1]()]"
				}
				inScript := "global (CALLBUF)\n" + def + "\nr1 := f(" + strings.Join(as, ", ") + ")\nr2 := f(" + strings.Join(second, ", ") + ")\nreturn [r1, r2, " + obs + ", [" + strings.Join(second, ", ") + "]]"
				viaGo := "global (CALLBUF)\n" + def + "\nrr := CALLBUF(" + strings.Join(append([]string{"f"}, as...), ", ") + ")\nreturn [rr[0], rr[1], " + obs + ", rr[2]]"
				callbuf := &ugo.Function{Name: "CALLBUF", ValueEx: func(call ugo.Call) (ugo.Object, error) {
					buf := make([]ugo.Object, 0, 8)
					for i := 1; i < call.Len(); i++ {
						buf = append(buf, call.Get(i))
					}
					inv := ugo.NewInvoker(call.VM(), call.Get(0))
					if pooled {
						inv.Acquire()
						defer inv.Release()
					}
					r1, err := inv.Invoke(buf...)
					if err != nil {
						return nil, err
					}
					buf[len(buf)-1] = ugo.String("changed")
					r2, err := inv.Invoke(buf...)
					if err != nil {
						return nil, err
					}
					return ugo.Array{r1, r2, append(ugo.Array{}, buf...)}, nil
				}}
				want := run.Source(inScript, run.Options{Globals: ugo.Map{"CALLBUF": callbuf}})
				got := run.Source(viaGo, run.Options{Globals: ugo.Map{"CALLBUF": callbuf}})
				c.AddTraces(1)
				c.AddTransitions(4)
				if want.CompileErr != "" || got.CompileErr != "" {
					c.Infra("arg-buffer program does not compile: %s %s", want.CompileErr, got.CompileErr)
					continue
				}
				if got.Key() != want.Key() {
					c.Violation(key, fmt.Sprintf("through the Invoker with a re-used argument slice: %s; in the script: %s", got.String(), want.String()), map[string]any{"program_via_go": viaGo, "program_in_script": inScript})
				}
			}
		}
	}
}

// repeatFamily: ONE Invoker (one child VM) is used for two successive invocations; the first may end in any way
// (value, thrown error in a nested callee after discarded tail self-calls, recovered Go panic, finally blocks).
// In the script the two calls are ordinary calls wrapped in try-catch. (A Go panic that leaves the invoked function
// uncaught is not among them: a VM reports such a panic with a "panic:" prefix and a Go stack when it leaves Run, so its
// text legitimately differs between a child VM and an in-script call.)
func repeatFamily(c *fw.Ctx) {
	c.Family("repeat", "6 functions x every ordered pair of their argument tuples x pooled/unpooled Invoker x recovery on/off; one Invoker, two invocations")
	type rf struct {
		def     string
		tuples  [][]string
		recOnly bool // needs recovery (a Go panic is involved)
	}
	defs := []rf{
		{"thrower := func() { throw error(\"t\") }; var f; f = func(n, v) { if n == 0 { if v == 0 { thrower() }; return v }; f(n - 1, v) }",
			[][]string{{"0", "0"}, {"0", "5"}, {"2", "0"}, {"2", "5"}}, false},
		{"thrower := func() { throw error(\"t\") }; var f; f = func(n, v) { if n == 0 { if v == 0 { thrower() }; return v }; return f(n - 1, v) }",
			[][]string{{"0", "0"}, {"0", "5"}, {"2", "0"}, {"2", "5"}}, false},
		{"f := func(x) { try { if x == 1 { PANIC() } } catch e { return \"caught\" } finally { L(x) }; return x }", [][]string{{"0"}, {"1"}, {"2"}}, true},
		{"f := func(k) { try { if k == 1 { throw \"s\" }; return k } finally { L(k) } }", [][]string{{"0"}, {"1"}, {"2"}}, false},
		{"zero := 0; g := func(k) { try { if k { return 1 / zero }; return k } finally { L(9) } }; f := func(k) { a := [k, k]; return [g(k), a] }", [][]string{{"0"}, {"1"}}, false},
		{"n := 0; f := func(k) { n++; if k == 1 { return [][n] }; return n }", [][]string{{"0"}, {"1"}}, false},
	}
	for di, d := range defs {
		for i1, a1 := range d.tuples {
			for i2, a2 := range d.tuples {
				for _, pooled := range []bool{false, true} {
					for _, recOn := range []bool{true, false} {
						if !c.Next() {
							continue
						}
						if d.recOnly && !recOn {
							continue
						}
						key := fmt.Sprintf("repeat def=%d args=%d,%d pooled=%v recover=%v", di, i1, i2, pooled, recOn)
						if c.Skip(key) {
							continue
						}
						c.Nontrivial()
						c.AddStates(1)
						call := func(as []string) string {
							return "try { r = append(r, f(" + strings.Join(as, ", ") + ")) } catch e { r = append(r, S(e)) }"
						}
						pre := "global (CALL2, PANIC, L, S)\n" + d.def + "\n"
						inScript := pre + "r := []\n" + call(a1) + "\n" + call(a2) + "\nreturn r"
						viaGo := pre + "return CALL2(f, [" + strings.Join(a1, ", ") + "], [" + strings.Join(a2, ", ") + "])"
						var log []string
						globals := func() ugo.Map {
							return ugo.Map{
								"L": &ugo.Function{Name: "L", Value: func(a ...ugo.Object) (ugo.Object, error) {
									log = append(log, uv.Repr(a[0]))
									return ugo.Undefined, nil
								}},
								"PANIC": &ugo.Function{Name: "PANIC", Value: func(...ugo.Object) (ugo.Object, error) { panic("host function panics") }},
								"S":     &ugo.Function{Name: "S", Value: func(a ...ugo.Object) (ugo.Object, error) { return ugo.String(cutStack(a[0].String())), nil }},
								"CALL2": &ugo.Function{Name: "CALL2", ValueEx: func(call ugo.Call) (ugo.Object, error) {
									inv := ugo.NewInvoker(call.VM(), call.Get(0))
									if pooled {
										inv.Acquire()
										defer inv.Release()
									}
									out := ugo.Array{}
									for i := 1; i <= 2; i++ {
										args, _ := call.Get(i).(ugo.Array)
										v, err := inv.Invoke(args...)
										if err != nil {
											out = append(out, ugo.String(cutStack(err.Error())))
										} else {
											out = append(out, v)
										}
									}
									return out, nil
								}},
							}
						}
						log = nil
						want := run.Source(inScript, run.Options{Globals: globals(), NoRecover: !recOn})
						wantLog := fmt.Sprint(log)
						log = nil
						got := run.Source(viaGo, run.Options{Globals: globals(), NoRecover: !recOn})
						gotLog := fmt.Sprint(log)
						c.AddTraces(1)
						c.AddTransitions(4)
						if want.CompileErr != "" || got.CompileErr != "" {
							c.Infra("repeat program does not compile: %s %s", want.CompileErr, got.CompileErr)
							continue
						}
						if got.Key() != want.Key() || gotLog != wantLog {
							c.Violation(key, fmt.Sprintf("two invocations through one Invoker: %s log=%s; the same two calls in the script: %s log=%s", got.String(), gotLog, want.String(), wantLog),
								map[string]any{"program_via_go": viaGo, "program_in_script": inScript})
						}
					}
				}
			}
		}
	}
}

// cutStack removes the Go stack trace that a recovered panic carries in its message.
func cutStack(s string) string {
	if i := strings.Index(s, "\nGo Stack:"); i >= 0 {
		return s[:i]
	}
	return s
}

func program(f fn, h []int, args []string, viaGo bool, nested bool) string {
	var sb strings.Builder
	sb.WriteString("global (L, CALL, CALLP, G)\n")
	sb.WriteString(f.def + "\n")
	for _, k := range h {
		sb.WriteString(history[k] + "\n")
	}
	call := "f(" + strings.Join(args, ", ") + ")"
	if viaGo {
		call = "CALL(" + strings.Join(append([]string{"f"}, args...), ", ") + ")"
		if nested {
			call = "CALL(func() { return " + call + " })"
		}
	} else if nested {
		call = "func() { return " + call + " }()"
	}
	if f.use != "" {
		call = fmt.Sprintf(f.use, call)
	}
	sb.WriteString("res := undefined\ntry {\n\tres = [\"ok\", " + call + "]\n} catch e {\n\tres = [\"err\", string(e)]\n}\n")
	post := "undefined"
	if f.post != "" {
		post = f.post
	}
	// the function is called once more inside the script afterwards: both routes must leave the same state behind
	sb.WriteString("after := undefined\ntry {\n\tafter = [\"ok\", f(" + strings.Join(args, ", ") + ")]\n} catch e {\n\tafter = [\"err\", string(e)]\n}\n")
	if f.use != "" {
		sb.WriteString("after = 0\n")
	}
	sb.WriteString("return [res, " + post + ", after, " + post + "]\n")
	return sb.String()
}

func one(c *fw.Ctx, f fn, h []int, args []string, variant int, recoverOn bool) {
	key := fmt.Sprintf("%s(%s) hist=%v path=%d recover=%v", f.name, strings.Join(args, ","), h, variant, recoverOn)
	if c.Skip(key) {
		return
	}
	nested := variant == 3
	v := variant
	if nested {
		v = 1
	}
	mm := func() *ugo.ModuleMap {
		m := ugo.NewModuleMap()
		m.AddSourceModule("cnt", []byte("n := 0\nreturn {inc: func() { n++; return n }}"))
		return m
	}
	runIt := func(viaGo bool) (run.Obs, *paths) {
		p := &paths{seen: map[uintptr]bool{}}
		src := program(f, h, args, viaGo, nested)
		g := ugo.Map{"G": ugo.Int(-1), "CALL": &ugo.Function{Name: "CALL", ValueEx: p.call(v)}, "CALLP": &ugo.Function{Name: "CALLP", ValueEx: p.call(1)}}
		o := run.Source(src, run.Options{ModuleMap: mm(), Globals: g, NoRecover: !recoverOn})
		return o, p
	}
	want, _ := runIt(false)
	got, p := runIt(true)
	c.AddTransitions(p.ops)
	c.AddTraces(1)
	if p.recycled > 0 {
		c.Nontrivial()
	}
	c.Sample(map[string]any{"case": key, "program_via_go": program(f, h, args, true, nested), "outcome": got.String()})
	if want.CompileErr != "" || got.CompileErr != "" {
		c.Infra("program does not compile: %s / %s", want.CompileErr, got.CompileErr)
		return
	}
	if got.Key() != want.Key() {
		got2, _ := runIt(true)
		want2, _ := runIt(false)
		if got2.Key() == want2.Key() { // a second pair of runs agrees (texts of a disagreement may vary)
			c.Infra("unstable outcome for %s", key)
			return
		}
		c.Violation(key, fmt.Sprintf("through the Invoker: %s; in the script: %s", got.String(), want.String()),
			map[string]any{"program_via_go": program(f, h, args, true, nested), "program_in_script": program(f, h, args, false, nested)})
		c.Outcome("differs")
		return
	}
	if strings.Contains(got.Val, `"err"`) {
		c.Outcome("error")
	} else {
		c.Outcome("value")
	}
	_ = uv.Repr
}
