package c14

import (
	"fmt"

	"github.com/ozanh/ugo"

	"verif/internal/fw"
	"verif/internal/uv"
)

// Family "kept-invoker": the function value comes from an earlier run of the VM (its return value); the host creates
// ONE Invoker for it and keeps it. Later runs of the same VM - each with its own globals object - call the function
// both in the script and, through a Go call-back, with the kept Invoker. Both calls happen "from a Go call-back during
// the run" / "inside the script" of the same run, so they read and update the same globals: those of the run in
// progress.
const keptSrc = `param (fn, d)
global (G, CALLK, ABORT)
if !fn {
	return func(x) { if x < 0 { ABORT(); for {} }; G.n += x; G.log = append(G.log, x); return G.n }
}
if d < 0 {
	// this run is aborted while the kept Invoker's function is running
	return CALLK(d)
}
a := fn(d)
b := CALLK(d + 1)
c := fn(d + 2)
return [a, b, c, G.n, G.log]
`

func keptInvoker(c *fw.Ctx) {
	c.Family("kept-invoker", "one Invoker (pooled and acquired once / pooled and re-acquired per call / not pooled) kept over 1..3 later runs with different globals objects x recovery on/off")
	bc, err := ugo.Compile([]byte(keptSrc), ugo.CompilerOptions{})
	if err != nil {
		c.Infra("kept-invoker: %v", err)
		return
	}
	for mode := 0; mode < 6; mode++ {
		abortedFirst := mode >= 3
		mode := mode % 3
		for runs := 1; runs <= 3; runs++ {
			for _, rec := range []bool{true, false} {
				if !c.Next() {
					continue
				}
				key := fmt.Sprintf("kept-invoker mode=%d runs=%d recover=%v aborted-run-first=%v", mode, runs, rec, abortedFirst)
				if c.Skip(key) {
					continue
				}
				c.Nontrivial()
				c.AddStates(1)
				vm := ugo.NewVM(bc).SetRecover(rec)
				g0 := ugo.Map{"G": ugo.Map{"n": ugo.Int(1000), "log": ugo.Array{}}, "CALLK": ugo.Undefined, "ABORT": ugo.Undefined}
				fnv, err := vm.Run(g0)
				if err != nil {
					c.Infra("kept-invoker: first run: %v", err)
					return
				}
				inv := ugo.NewInvoker(vm, fnv)
				if mode == 0 {
					inv.Acquire()
				}
				callk := &ugo.Function{Name: "CALLK", Value: func(args ...ugo.Object) (ugo.Object, error) {
					if mode == 1 {
						inv.Acquire()
						defer inv.Release()
					}
					return inv.Invoke(args...)
				}}
				if abortedFirst {
					// a run that is aborted while the function runs on the Invoker's child VM; the runs after it are
					// ordinary runs ("an aborted VM runs later scripts normally")
					g := ugo.Map{"G": ugo.Map{"n": ugo.Int(5), "log": ugo.Array{}}, "CALLK": callk,
						"ABORT": &ugo.Function{Name: "ABORT", Value: func(...ugo.Object) (ugo.Object, error) { vm.Abort(); return ugo.Undefined, nil }}}
					if _, err := vm.Run(g, fnv, ugo.Int(-1)); err == nil {
						c.Infra("kept-invoker: the aborted run ended without an error")
						return
					}
				}
				for r := 1; r <= runs; r++ {
					start := int64(10 * r)
					g := ugo.Map{"G": ugo.Map{"n": ugo.Int(start), "log": ugo.Array{}}, "CALLK": callk, "ABORT": ugo.Undefined}
					d := int64(r)
					ret, err := vm.Run(g, fnv, ugo.Int(d))
					c.AddTransitions(1)
					c.AddTraces(1)
					// model: three additions to the globals of THIS run, in order
					n1, n2, n3 := start+d, start+2*d+1, start+3*d+3
					want := fmt.Sprintf("OK [%d, %d, %d, %d, [%d, %d, %d]]", n1, n2, n3, n3, d, d+1, d+2)
					got := uv.Outcome(ret, err)
					c.Sample(map[string]any{"case": key, "run": r, "outcome": got})
					if got != want {
						c.Violation(key, fmt.Sprintf("later run %d: calls in the script and through the kept Invoker must update the globals of that run: got %s, want %s (globals object afterwards: %s; first run's: %s)",
							r, got, want, uv.Repr(g["G"]), uv.Repr(g0["G"])), map[string]any{"program": keptSrc})
						break
					}
				}
				if mode == 0 {
					inv.Release()
				}
			}
		}
	}
}
