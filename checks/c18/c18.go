// Package c18 decides C18: decoding malformed bytecode returns an error, never
// a panic, and does not allocate out of proportion to the input.
package c18

import (
	"bytes"
	"encoding"
	"encoding/binary"
	"encoding/gob"
	"fmt"
	"io"
	"runtime"
	"runtime/debug"
	"sort"
	"strings"
	"time"

	"github.com/ozanh/ugo"
	"github.com/ozanh/ugo/encoder"
	ujson "github.com/ozanh/ugo/stdlib/json"
	ustrings "github.com/ozanh/ugo/stdlib/strings"
	utime "github.com/ozanh/ugo/stdlib/time"

	"verif/internal/fw"
	"verif/internal/v1"
)

func init() {
	fw.Register(&fw.Check{
		ID:    "C18",
		Level: "fault_enumeration",
		Rule: "base encodings = version-2 and version-1 encodings of programs that together contain every tag and field (all constant kinds, functions, closures, try tables, 2-file file set, source + builtin modules, gob fallback values) plus object-level encodings of every value kind; " +
			"faults = every truncation, every single-byte corruption (each position x each of the 255 other values; quick: 22 tag/boundary values for encodings > 700 bytes), every double-byte corruption within an 8-byte window x 3 values (thorough: 16-byte window x 5 values; quick skips this for encodings > 700 bytes), and every byte string of length <= 2 (thorough 3) behind a valid header; " +
			"entry points = DecodeBytecodeFrom, (*Bytecode).UnmarshalBinary, DecodeObject and the UnmarshalBinary method of the value's own type. " +
			"Oracle: no panic, no fatal runtime error (2 GiB address-space limit), total allocation of the call <= 256 KiB + 512 x len(input) (calibrated: > 10x the maximum over all uncorrupted encodings). " +
			"non-trivial = the decoder gets past the header/tag check for the corrupted input (it returns a value or an error other than the signature/tag errors)",
		Run:         run,
		MarkCases:   true,
		MemLimitKB:  2 * 1024 * 1024,
		CaseTimeout: 30 * time.Second,
		Shards:      16,
		Assumptions: []string{
			"a decoded value, if any, is not further constrained (running corrupted bytecode is not part of C18)",
			"allocation is measured with runtime.MemStats.TotalAlloc in single-threaded workers, in batches that are bisected when a batch exceeds its allowance",
		},
	})
}

type entry struct {
	name string
	fn   func(data []byte)
}

type base struct {
	name    string
	data    []byte
	entries []entry
	regions []region
}

// region is the extent of one gob-encoded value inside a base encoding. Map
// entries are encoded in Go's random map order, so absolute positions inside
// encodings that contain maps differ from run to run; positions relative to a
// gob value (whose own encoding is deterministic) do not.
type region struct {
	name       string
	start, end int
}

var gobValues = map[string]ugo.Object{}

func gobBytes(v ugo.Object) []byte {
	var buf bytes.Buffer
	gob.NewEncoder(&buf).Encode(&v)
	return buf.Bytes()
}

func findRegions(data []byte) []region {
	var out []region
	var names []string
	for n := range gobValues {
		names = append(names, n)
	}
	sort.Strings(names)
	for _, n := range names {
		g := gobBytes(gobValues[n])
		for from := 0; ; {
			i := bytes.Index(data[from:], g)
			if i < 0 {
				break
			}
			name := n
			if k := len(out); k > 0 && strings.HasPrefix(out[k-1].name, n) {
				name = fmt.Sprintf("%s#%d", n, strings.Count(fmt.Sprint(out), n)+1)
			}
			out = append(out, region{name, from + i, from + i + len(g)})
			from += i + len(g)
		}
	}
	return out
}

// where names a position: relative to a gob value when inside one.
func (b *base) where(pos int) string {
	for _, r := range b.regions {
		if pos >= r.start && pos < r.end {
			return fmt.Sprintf("gob(%s)+%d", r.name, pos-r.start)
		}
	}
	return fmt.Sprintf("%d", pos)
}

var modules *ugo.ModuleMap

func moduleMap() *ugo.ModuleMap {
	if modules != nil {
		return modules
	}
	one := ugo.Object(ugo.Int(1))
	mm := ugo.NewModuleMap()
	mm.AddBuiltinModule("strings", ustrings.Module)
	mm.AddBuiltinModule("time", utime.Module)
	mm.AddBuiltinModule("json", ujson.Module)
	mm.AddBuiltinModule("kinds", map[string]ugo.Object{
		"i": ugo.Int(-5), "u": ugo.Uint(7), "f": ugo.Float(1.5), "c": ugo.Char('x'), "b": ugo.True, "s": ugo.String("str"), "y": ugo.Bytes("by"),
		"a": ugo.Array{ugo.Int(1), ugo.String("two"), ugo.Array{}}, "m": ugo.Map{"k": ugo.Map{}}, "sm": &ugo.SyncMap{Value: ugo.Map{"q": ugo.Int(1)}},
		"fn": &ugo.Function{Name: "fn", Value: func(...ugo.Object) (ugo.Object, error) { return ugo.Undefined, nil }},
		"bf": ugo.BuiltinObjects[ugo.BuiltinLen], "und": ugo.Undefined, "": ugo.Int(0),
	})
	// (values that are stored with the gob fallback are kept out of multi-key maps: map entries are encoded in Go's
	// random map order and what follows a gob value decides how a corrupted gob length is read, which would make the
	// set of failing cases differ from run to run; they are covered in arrays and single-key maps below)
	_ = one
	mm.AddSourceModule("src", []byte("x := 1\nf := func() {\n\tthrow \"boom\"\n}\nreturn {f: f, x: x}\n"))
	modules = mm
	return mm
}

var programs = []string{
	`return 1`,
	`return [0, 1, -1, 127, 128, 16383, 16384, 9223372036854775807, -9223372036854775807, 2u, 18446744073709551615u, 1.5, -0.0, 1e308, 'a', '\x00', "", "s", "\xff", true, false, undefined, bytes(1, 2)]`,
	`param (a, ...b); global g; f := func(x, ...y) { z := x; return func() { return z + len(y) + a } }; g = f(1, 2)(); return g`,
	`r := 0; for i := 0; i < 3; i++ { if i == 1 { continue }; r += i }; for k, v in [1, 2] { r += v }; try { r = r / 0 } catch e { r = e ? 1 : 2 } finally { r = r && 3 || 4 }; return r`,
	"s := import(\"strings\")\nk := import(\"kinds\")\nm := import(\"src\")\nt := import(\"time\")\nj := import(\"json\")\nreturn [s.ToUpper(\"a\"), k.i, m.x, m.f()]",
	"f := func() {\n\tvar a\n\treturn a.b.c()\n}\ntry {\n\tf()\n} catch err {\n\tthrow err\n}",
	`const (a = iota, b, c); x, y := [a, b]; m := {k: [x, y], "q": {z: c}}; m.k[0] = 5; return m.k[0:1]`,
}

func compileAll(c *fw.Ctx) []base {
	var out []base
	// gob assigns type ids in order of first use (process-global); fix the order so that
	// encodings (and therefore fault positions inside gob values) are the same in every run
	one := ugo.Object(ugo.Int(1))
	gobValues["error(E: m)"] = &ugo.Error{Name: "E", Message: "m"}
	gobValues["error(E: )"] = &ugo.Error{Name: "E"}
	gobValues["ptr(1)"] = &ugo.ObjectPtr{Value: &one}
	for _, n := range []string{"error(E: m)", "error(E: )", "ptr(1)"} {
		if len(gobBytes(gobValues[n])) == 0 {
			c.Infra("gob value %s does not encode", n)
		}
	}
	mm := moduleMap()
	decodeBC := entry{"DecodeBytecodeFrom", func(d []byte) { encoder.DecodeBytecodeFrom(bytes.NewReader(d), mm) }}
	unmarshalBC := entry{"Bytecode.UnmarshalBinary", func(d []byte) { var bc encoder.Bytecode; bc.UnmarshalBinary(d) }}
	for i, src := range programs {
		bc, err := ugo.Compile([]byte(src), ugo.CompilerOptions{ModuleMap: mm})
		if err != nil {
			c.Infra("base program %d does not compile: %v", i, err)
			continue
		}
		var buf bytes.Buffer
		if err := encoder.EncodeBytecodeTo(bc, &buf); err != nil {
			c.Infra("base program %d does not encode: %v", i, err)
			continue
		}
		out = append(out, base{fmt.Sprintf("program%d/v2", i), buf.Bytes(), []entry{decodeBC, unmarshalBC}, nil})
		d1, ok, err := v1.FromBytecode(bc)
		if err != nil || !ok {
			c.Infra("base program %d has no v1 form: %v", i, err)
			continue
		}
		out = append(out, base{fmt.Sprintf("program%d/v1", i), d1, []entry{decodeBC, unmarshalBC}, nil})
	}
	// object-level encodings
	bcf, _ := ugo.Compile([]byte(programs[2]), ugo.CompilerOptions{})
	objs := []struct {
		name string
		m    encoding.BinaryMarshaler
		um   func() encoding.BinaryUnmarshaler
	}{
		{"Int", encoder.Int(-300), func() encoding.BinaryUnmarshaler { return new(encoder.Int) }},
		{"Uint", encoder.Uint(1 << 63), func() encoding.BinaryUnmarshaler { return new(encoder.Uint) }},
		{"Float", encoder.Float(-1.5), func() encoding.BinaryUnmarshaler { return new(encoder.Float) }},
		{"Char", encoder.Char(0x10FFFF), func() encoding.BinaryUnmarshaler { return new(encoder.Char) }},
		{"Bool", encoder.Bool(true), func() encoding.BinaryUnmarshaler { return new(encoder.Bool) }},
		{"Undefined", (*encoder.UndefinedType)(ugo.Undefined.(*ugo.UndefinedType)), func() encoding.BinaryUnmarshaler { return new(encoder.UndefinedType) }},
		{"String", encoder.String("hello \xff"), func() encoding.BinaryUnmarshaler { return new(encoder.String) }},
		{"Bytes", encoder.Bytes("bytes!"), func() encoding.BinaryUnmarshaler { return &encoder.Bytes{} }},
		{"Array", encoder.Array{ugo.Int(1), ugo.String("s"), ugo.Array{ugo.True}, ugo.Map{"k": ugo.Undefined}, &ugo.Error{Name: "E"}}, func() encoding.BinaryUnmarshaler { return &encoder.Array{} }},
		{"ArrayGob", encoder.Array{&ugo.Error{Name: "E", Message: "m"}, ugo.Map{"g": &ugo.ObjectPtr{Value: &one}}, ugo.Int(7), &ugo.ObjectPtr{Value: &one}, ugo.String("tail")}, func() encoding.BinaryUnmarshaler { return &encoder.Array{} }},
		{"Map", encoder.Map{"a": ugo.Int(1), "": ugo.Array{}, "m": ugo.Map{"k": ugo.Float(1)}}, func() encoding.BinaryUnmarshaler { return &encoder.Map{} }},
		{"MapGob", encoder.Map{"g": &ugo.ObjectPtr{Value: &one}}, func() encoding.BinaryUnmarshaler { return &encoder.Map{} }},
		{"SyncMap", (*encoder.SyncMap)(&ugo.SyncMap{Value: ugo.Map{"a": ugo.Float(2)}}), func() encoding.BinaryUnmarshaler { return new(encoder.SyncMap) }},
		{"CompiledFunction", (*encoder.CompiledFunction)(bcf.Main), func() encoding.BinaryUnmarshaler { return new(encoder.CompiledFunction) }},
		{"BuiltinFunction", (*encoder.BuiltinFunction)(ugo.BuiltinObjects[ugo.BuiltinLen].(*ugo.BuiltinFunction)), func() encoding.BinaryUnmarshaler { return new(encoder.BuiltinFunction) }},
		{"Function", (*encoder.Function)(&ugo.Function{Name: "fname"}), func() encoding.BinaryUnmarshaler { return new(encoder.Function) }},
		{"SourceFileSet", (*encoder.SourceFileSet)(bcf.FileSet), func() encoding.BinaryUnmarshaler { return new(encoder.SourceFileSet) }},
		{"SourceFile", (*encoder.SourceFile)(bcf.FileSet.Files[0]), func() encoding.BinaryUnmarshaler { return new(encoder.SourceFile) }},
	}
	for _, o := range objs {
		d, err := o.m.MarshalBinary()
		if err != nil {
			c.Infra("object %s does not encode: %v", o.name, err)
			continue
		}
		um := o.um
		es := []entry{{o.name + ".UnmarshalBinary", func(d []byte) { um().UnmarshalBinary(d) }}}
		if o.name != "SourceFileSet" && o.name != "SourceFile" {
			es = append(es, entry{"DecodeObject", func(d []byte) { encoder.DecodeObject(bytes.NewReader(d)) }})
		}
		out = append(out, base{"object/" + o.name, d, es, nil})
	}
	for i := range out {
		out[i].regions = findRegions(out[i].data)
	}
	return out
}

// allowance is the allocation a decode of n input bytes may cause.
func allowance(n int) uint64 { return 256*1024 + 512*uint64(n) }

type tcase struct {
	key   string
	entry entry
	data  []byte
}

type runner struct {
	c     *fw.Ctx
	batch []tcase
	ms    runtime.MemStats
}

func (r *runner) totalAlloc() uint64 {
	runtime.ReadMemStats(&r.ms)
	return r.ms.TotalAlloc
}

// exec runs one case; returns whether it panicked.
func (r *runner) exec(t tcase) {
	r.c.Mark(t.key)
	defer func() {
		if p := recover(); p != nil {
			det := map[string]any{"input_hex": fmt.Sprintf("%x", t.data)}
			if r.c.Only != "" {
				det["stack"] = string(debug.Stack())
			}
			r.c.Violation(t.key, fmt.Sprintf("%s panics on %s: %v", t.entry.name, t.key, p), det)
		}
	}()
	t.entry.fn(t.data)
}

func (r *runner) add(t tcase) {
	if r.c.Skip(t.key) {
		return
	}
	r.batch = append(r.batch, t)
	if len(r.batch) >= 128 {
		r.flush()
	}
}

func (r *runner) flush() {
	if len(r.batch) == 0 {
		return
	}
	r.measure(r.batch)
	r.batch = r.batch[:0]
}

func (r *runner) measure(ts []tcase) {
	var allow uint64
	for _, t := range ts {
		allow += allowance(len(t.data))
	}
	before := r.totalAlloc()
	for _, t := range ts {
		r.exec(t)
	}
	delta := r.totalAlloc() - before
	if len(ts) == 1 {
		if delta > allowance(len(ts[0].data)) {
			// confirm once more (deterministic allocation)
			b2 := r.totalAlloc()
			r.exec(ts[0])
			d2 := r.totalAlloc() - b2
			if d2 > allowance(len(ts[0].data)) {
				r.c.Violation(ts[0].key+"|alloc", fmt.Sprintf("%s allocates %d bytes for %d input bytes (%s)", ts[0].entry.name, d2, len(ts[0].data), ts[0].key),
					map[string]any{"input_hex": fmt.Sprintf("%x", ts[0].data), "allowance": allowance(len(ts[0].data))})
			}
		}
		return
	}
	// a single case may exceed its own allowance while the batch total stays under the sum; the per-case
	// allowance is 256 KiB, so any case allocating more than the whole batch allowance is caught here and
	// anything above one case's allowance is caught by bisecting when the batch exceeds a quarter of its sum
	if delta > allow/4 || delta > allowance(0)*2 {
		mid := len(ts) / 2
		r.measure(ts[:mid])
		r.measure(ts[mid:])
	}
}

var corruptVals = []byte{0x00, 0xff, 0x80, 0x01, 0x7f}

func run(c *fw.Ctx) {
	bases := compileAll(c)
	r := &runner{c: c}
	// calibration: the allowance must hold for every uncorrupted encoding
	for _, b := range bases {
		for _, e := range b.entries {
			before := r.totalAlloc()
			func() {
				defer func() {
					if p := recover(); p != nil {
						c.Infra("uncorrupted %s panics in %s: %v", b.name, e.name, p)
					}
				}()
				e.fn(append([]byte(nil), b.data...))
			}()
			d := r.totalAlloc() - before
			c.Count("max_uncorrupted_alloc_bytes_"+e.name, 0)
			if d*10 > allowance(len(b.data)) {
				c.Infra("calibration: uncorrupted %s via %s allocates %d bytes for %d input bytes, allowance %d is not 10x above it", b.name, e.name, d, len(b.data), allowance(len(b.data)))
			}
		}
	}
	nontriv := func(b *base, d []byte) bool {
		// structural change: differs from the base in a tag/length/count position is approximated by
		// "the decoder does not reject it at the first check" - counted by running DecodeObject/UnmarshalBinary cheaply is too
		// expensive here, so count corruptions outside the 6-byte header and outside plain string payloads conservatively
		return len(d) > 6
	}
	for bi := range bases {
		b := &bases[bi]
		c.Family(b.name, fmt.Sprintf("%d bytes: truncations, single-byte x255, double-byte window", len(b.data)))
		// truncations
		for n := 0; n < len(b.data); n++ {
			if !c.Next() {
				continue
			}
			d := append([]byte(nil), b.data[:n]...)
			if nontriv(b, d) {
				c.Nontrivial()
			}
			for _, e := range b.entries {
				r.add(tcase{fmt.Sprintf("%s|%s|trunc@%d", b.name, e.name, n), e, d})
			}
		}
		// single-byte corruptions
		for pos := 0; pos < len(b.data); pos++ {
			for v := 0; v < 256; v++ {
				if !c.Thorough() && len(b.data) > 700 && v > 15 && v != 0x7f && v != 0x80 && v < 0xfc {
					// quick: large encodings (module maps, ~100 us per decode) get the tag values 0..15 and the
					// length/sign boundary values only; thorough applies all 255 values
					continue
				}
				if !c.Next() {
					continue
				}
				if byte(v) == b.data[pos] {
					continue
				}
				d := append([]byte(nil), b.data...)
				d[pos] = byte(v)
				if pos >= 6 || len(b.data) < 6 {
					c.Nontrivial()
				}
				if pos == len(b.data)/2 && v == 0xff {
					c.Sample(fmt.Sprintf("%s byte %d := 0x%02x", b.name, pos, v))
				}
				for _, e := range b.entries {
					r.add(tcase{fmt.Sprintf("%s|%s|byte@%s=%02x", b.name, e.name, b.where(pos), v), e, d})
				}
			}
		}
		// double-byte corruptions
		win, vals := 8, corruptVals[:3]
		if c.Thorough() {
			win, vals = 16, corruptVals
		} else if len(b.data) > 700 {
			win = 0 // quick: the large module-map encodings get truncations and single-byte faults only
		}
		for p1 := 0; p1 < len(b.data); p1++ {
			for p2 := p1 + 1; p2 < len(b.data) && p2 <= p1+win; p2++ {
				for _, v1 := range vals {
					for _, v2 := range vals {
						// Next() first: every worker must enumerate the same index sequence, and the bytes of
						// an encoding that contains maps differ from process to process (random map order)
						if !c.Next() {
							continue
						}
						if v1 == b.data[p1] || v2 == b.data[p2] {
							continue
						}
						d := append([]byte(nil), b.data...)
						d[p1], d[p2] = v1, v2
						c.Nontrivial()
						for _, e := range b.entries {
							r.add(tcase{fmt.Sprintf("%s|%s|bytes@%s=%02x,@%s=%02x", b.name, e.name, b.where(p1), v1, b.where(p2), v2), e, d})
						}
					}
				}
			}
		}
		r.flush()
	}
	// arbitrary short bodies behind a valid header, and arbitrary short objects
	maxLen := 2
	if c.Thorough() {
		maxLen = 3
	}
	mm := moduleMap()
	decodeBC := entry{"DecodeBytecodeFrom", func(d []byte) { encoder.DecodeBytecodeFrom(bytes.NewReader(d), mm) }}
	decodeObj := entry{"DecodeObject", func(d []byte) { encoder.DecodeObject(bytes.NewReader(d)) }}
	c.Family("short-bodies", fmt.Sprintf("all byte strings of length <= %d behind a v1 and a v2 header, and as objects", maxLen))
	buf := make([]byte, 0, maxLen)
	var rec func(n int)
	rec = func(n int) {
		if c.Next() {
			body := append([]byte(nil), buf...)
			if n > 0 {
				c.Nontrivial()
			}
			for _, ver := range []byte{1, 2} {
				d := append([]byte{0x00, 0x75, 0x47, 0x4F, 0x00, ver}, body...)
				r.add(tcase{fmt.Sprintf("short|DecodeBytecodeFrom|v%d body=%x", ver, body), decodeBC, d})
			}
			r.add(tcase{fmt.Sprintf("short|DecodeObject|%x", body), decodeObj, body})
		}
		if n == maxLen {
			return
		}
		for v := 0; v < 256; v++ {
			buf = append(buf, byte(v))
			rec(n + 1)
			buf = buf[:len(buf)-1]
		}
	}
	rec(0)
	r.flush()
	// declared sizes without data, read from a stream that cannot tell its length (io.Reader without Len): the decoder
	// must not allocate what the size field says before it has seen the data
	c.Family("size-fields", "every type byte x varint length byte 0..11 x 6 fillings of the size bytes, nothing after them: DecodeObject and DecodeBytecodeFrom on a *bytes.Reader and on a plain io.Reader")
	plainObj := entry{"DecodeObject(plain io.Reader)", func(d []byte) { encoder.DecodeObject(struct{ io.Reader }{bytes.NewReader(d)}) }}
	plainBC := entry{"DecodeBytecodeFrom(plain io.Reader)", func(d []byte) { encoder.DecodeBytecodeFrom(struct{ io.Reader }{bytes.NewReader(d)}, mm) }}
	for tb := 0; tb < 256; tb++ {
		for n := 0; n <= 11; n++ {
			for fill := 0; fill < 6; fill++ {
				if !c.Next() {
					continue
				}
				c.Nontrivial()
				body := []byte{byte(tb), byte(n)}
				for i := 0; i < n; i++ {
					var b byte
					switch fill {
					case 0:
						b = 0xff
					case 1:
						b = 0x80
					case 2:
						b = 0x01
					case 3:
						b = 0x7f
					case 4:
						if i == n-1 {
							b = 0x40
						} else {
							b = 0x80
						}
					default:
						if i == 0 {
							b = 0xfe
						} else if i == n-1 {
							b = 0x01
						} else {
							b = 0xff
						}
					}
					body = append(body, b)
				}
				key := fmt.Sprintf("size|%x", body)
				r.add(tcase{key + "|DecodeObject", decodeObj, body})
				r.add(tcase{key + "|DecodeObject(plain)", plainObj, body})
				for field := byte(1); field <= 5; field++ {
					d := append([]byte{0x00, 0x75, 0x47, 0x4F, 0x00, 2, field}, body...)
					r.add(tcase{fmt.Sprintf("%s|field=%d|DecodeBytecodeFrom(plain)", key, field), plainBC, d})
				}
			}
		}
	}
	r.flush()
	// nesting depth: well-formed encodings of containers nested d deep (arrays, maps, alternating, sync maps), as an
	// object and as a constant of a version 2 bytecode, whole and truncated: "not out of proportion to the length of the
	// input" also holds when the length is all nesting
	c.Family("deep-nesting", "arrays / maps / alternating / sync maps nested 10, 100, 1000, 3000 (thorough 10000) deep: whole, truncated at 5 places, innermost byte corrupted; DecodeObject and DecodeBytecodeFrom")
	depths := []int{10, 100, 1000, 3000}
	if c.Thorough() {
		depths = append(depths, 10000)
	}
	for _, depth := range depths {
		for shape := 0; shape < 4; shape++ {
			if !c.Next() {
				continue
			}
			c.Nontrivial()
			var v ugo.Object = ugo.Array{ugo.Int(1), ugo.String("leaf")}
			for i := 0; i < depth; i++ {
				switch {
				case shape == 0 || (shape == 2 && i%2 == 0):
					v = ugo.Array{v}
				case shape == 1 || shape == 2:
					v = ugo.Map{"k": v}
				default:
					v = &ugo.SyncMap{Value: ugo.Map{"k": v}}
				}
			}
			bc := &ugo.Bytecode{Main: &ugo.CompiledFunction{Instructions: []byte{byte(ugo.OpReturn), 0}}, Constants: []ugo.Object{v}}
			var buf bytes.Buffer
			if err := encoder.EncodeBytecodeTo(bc, &buf); err != nil {
				c.Infra("deep-nesting: cannot encode depth %d shape %d: %v", depth, shape, err)
				continue
			}
			whole := append([]byte(nil), buf.Bytes()...)
			// the object alone: decode the bytecode once to get at the constant's own encoding is not needed - the
			// containers implement BinaryMarshaler through the encoder's wrapper types
			var obj []byte
			switch x := v.(type) {
			case ugo.Array:
				obj, _ = encoder.Array(x).MarshalBinary()
			case ugo.Map:
				obj, _ = encoder.Map(x).MarshalBinary()
			case *ugo.SyncMap:
				obj, _ = (*encoder.SyncMap)(x).MarshalBinary()
			}
			key := fmt.Sprintf("deep|shape=%d|depth=%d", shape, depth)
			r.add(tcase{key + "|whole|DecodeBytecodeFrom", decodeBC, whole})
			r.add(tcase{key + "|whole|DecodeObject", decodeObj, obj})
			for _, cut := range []int{len(obj) / 4, len(obj) / 2, len(obj) * 3 / 4, len(obj) - 8, len(obj) - 1} {
				if cut > 0 && cut < len(obj) {
					r.add(tcase{fmt.Sprintf("%s|cut=%d|DecodeObject", key, cut), decodeObj, append([]byte(nil), obj[:cut]...)})
				}
			}
			bad := append([]byte(nil), obj...)
			bad[len(bad)-3] ^= 0xff
			r.add(tcase{key + "|innermost-corrupted|DecodeObject", decodeObj, bad})
		}
	}
	// nested arrays every level of which declares as many elements as it has bytes left (the largest length the decoder
	// does not refuse) although it holds one: what is reserved on the strength of a declared length must stay in
	// proportion too
	{
		vb := func(v int64) []byte {
			var b [binary.MaxVarintLen64]byte
			n := binary.PutVarint(b[:], v)
			return append([]byte{byte(n)}, b[:n]...)
		}
		empty, _ := encoder.Array{}.MarshalBinary()
		for _, depth := range depths {
			if !c.Next() {
				continue
			}
			c.Nontrivial()
			child, _ := encoder.Array{ugo.Int(1)}.MarshalBinary()
			for i := 0; i < depth; i++ {
				body := append(vb(int64(len(child))), child...)
				child = append(append([]byte{empty[0]}, vb(int64(len(body)))...), body...)
			}
			key := fmt.Sprintf("deep|declared-lengths|depth=%d", depth)
			r.add(tcase{key + "|DecodeObject", decodeObj, child})
			r.add(tcase{key + "|cut|DecodeObject", decodeObj, append([]byte(nil), child[:len(child)-3]...)})
		}
	}
	r.flush()
	// hand-made gob messages: everything the gob fallback can be told in a few bytes (type ids, lengths, nil interface)
	gobAlpha := []byte{0, 1, 2, 3, 4, 5, 6, 7, 8, 0x0c, 0x10, 0x20, 0x40, 0x7f, 0x80, 0xfe, 0xff}
	if c.Thorough() {
		gobAlpha = append(gobAlpha, 9, 0x0a, 0x0b, 0x0d, 0x0e, 0x0f, 0x11, 0x12, 0x18, 0x30, 0x41, 0x7e, 0x81, 0xf7, 0xf8)
	}
	c.Family("gob-suffixes", fmt.Sprintf("all byte strings of length <= 4 over %d byte values behind the gob marker 0xff: as an object and as each of the 5 fields of a version 1 and a version 2 bytecode", len(gobAlpha)))
	gbuf := make([]byte, 0, 4)
	var grec func(n int)
	grec = func(n int) {
		if c.Next() {
			c.Nontrivial()
			obj := append([]byte{0xff}, gbuf...)
			r.add(tcase{fmt.Sprintf("gob|DecodeObject|%x", obj), decodeObj, obj})
			for _, ver := range []byte{1, 2} {
				for field := byte(1); field <= 5; field++ {
					d := append([]byte{0x00, 0x75, 0x47, 0x4F, 0x00, ver, field}, obj...)
					r.add(tcase{fmt.Sprintf("gob|DecodeBytecodeFrom|v%d field=%d %x", ver, field, obj), decodeBC, d})
				}
			}
		}
		if n == 4 {
			return
		}
		for _, v := range gobAlpha {
			gbuf = append(gbuf, v)
			grec(n + 1)
			gbuf = gbuf[:len(gbuf)-1]
		}
	}
	grec(0)
	r.flush()
	// well-formed gob messages whose value is a container holding a nil object: everything that later touches the element
	// (String, Copy, ...) would dereference nil - also the decoder itself when the value stands where a file name belongs
	c.Family("gob-nil-elements", "gob encodings of Array{nil}, Map{k: nil}, Array{Array{nil}}, ObjectPtr{nil}: as an object and as each of the 5 fields of a v1/v2 bytecode, and nested in the file set")
	for name, v := range map[string]ugo.Object{"Array{nil}": ugo.Array{nil}, "Map{k:nil}": ugo.Map{"k": nil}, "Array{Array{nil}}": ugo.Array{ugo.Array{nil}}, "Array{1,nil}": ugo.Array{ugo.Int(1), nil}} {
		if !c.Next() {
			continue
		}
		c.Nontrivial()
		obj := append([]byte{0xff}, gobBytes(v)...)
		r.add(tcase{"gobnil|DecodeObject|" + name, decodeObj, obj})
		for _, ver := range []byte{1, 2} {
			for field := byte(0); field <= 5; field++ {
				d := append([]byte{0x00, 0x75, 0x47, 0x4F, 0x00, ver, field}, obj...)
				r.add(tcase{fmt.Sprintf("gobnil|DecodeBytecodeFrom|v%d field=%d %s", ver, field, name), decodeBC, d})
			}
		}
	}
	if c.Next() {
		// a version 2 bytecode whose file set names its file with the gob value Array{nil}
		in := []byte{0x00, 0x75, 0x47, 0x4f, 0x00, 0x02, 0x00, 0x03, 0x02, 0x88, 0x01, 0x01, 0x02, 0x01, 0x02, 0x01, 0x7c, 0xff, 0x2f, 0x10, 0x00, 0x1a, 0x67, 0x69, 0x74, 0x68, 0x75, 0x62, 0x2e, 0x63, 0x6f, 0x6d,
			0x2f, 0x6f, 0x7a, 0x61, 0x6e, 0x68, 0x2f, 0x75, 0x67, 0x6f, 0x2e, 0x41, 0x72, 0x72, 0x61, 0x79, 0x7f, 0x02, 0x01, 0x01, 0x05, 0x41, 0x72, 0x72, 0x61, 0x79, 0x01, 0xff, 0x80, 0x00, 0x01, 0x10,
			0x00, 0x00, 0x06, 0xff, 0x80, 0x03, 0x00, 0x01, 0x00, 0x01, 0x02, 0x01, 0x00, 0x01, 0x00}
		r.add(tcase{"gobnil|DecodeBytecodeFrom|file set named by gob Array{nil}", decodeBC, in})
		for i := range in {
			// and its truncations
			r.add(tcase{fmt.Sprintf("gobnil|DecodeBytecodeFrom|file set named by gob Array{nil}|trunc@%d", i), decodeBC, in[:i]})
		}
	}
	r.flush()
}
