// Package c16 decides C16: runtime errors report the true source locations.
// The generator writes one statement per line and knows, by construction, the
// line of every call statement and of the failing statement.
package c16

import (
	"fmt"
	"strings"

	"github.com/ozanh/ugo"

	"verif/internal/fw"
	"verif/internal/run"
)

func init() {
	fw.Register(&fw.Check{
		ID:    "C16",
		Level: "model_checking",
		Rule: "programs = call chains main -> f0 -> ... -> fd (d = 0..4; thorough 0..6) x 11 failure kinds (throw, failing operator, failing builtin, wrong argument count, index error, call of a non-callable, the same with operands that the optimizer folds - builtin call on constants, const identifier, constant arithmetic -, error raised in a module body) " +
			"x 6 call forms (statement, x := f(), return f(), argument of another call, operand next to a folded constant, element after a folded constant) x 4 layouts (no/blank/comment/two blank lines between statements) x 3 positions of the statement in its body x " +
			"3 definition styles (top level, nested in the caller, in an imported source module = second file); thorough also mixes the call forms per level. " +
			"Model = the line list known by construction; each program is run under {optimizer on, off} x {plain, encode->decode} x {k = 0, 1, 3 prepended blank lines}: " +
			"StackTrace() (outermost first, one entry per active frame) must equal the model shifted by k, every position must name the file it lies in and lie inside it. " +
			"states = programs, transitions = configurations run, traces = stack traces compared; non-trivial = d >= 1",
		Run: run16,
	})
}

type line struct {
	text string
}

type builder struct {
	lines []string
}

func (b *builder) add(s string) int {
	b.lines = append(b.lines, s)
	return len(b.lines) // 1-based line number of the added line
}

func (b *builder) gap(layout int) {
	switch layout {
	case 1:
		b.add("")
	case 2:
		b.add("// a comment line")
	case 3:
		b.add("")
		b.add("/* block comment */")
	case 4: // block comment opened on a line of its own
		b.add("/*")
		b.add("  text of the comment")
		b.add("*/")
	case 5: // block comment spanning lines, text on its first and last line, code behind the terminator
		b.add("/* first")
		b.add("   last */ id(0)")
	case 6: // raw string literal spanning lines
		b.add("id(`raw")
		b.add("string`)")
	case 8: // a block comment behind the previous statement, the last thing on its line
		if n := len(b.lines); n > 0 && !strings.HasSuffix(b.lines[n-1], "{") {
			b.lines[n-1] += " /* trailing */"
		} else {
			b.add("id(8) /* trailing */")
		}
	case 9: // a block comment that starts behind the previous statement and ends on the next line
		if n := len(b.lines); n > 0 && !strings.HasSuffix(b.lines[n-1], "{") {
			b.lines[n-1] += " /* trailing,"
		} else {
			b.add("id(9) /* trailing,")
		}
		b.add("   continued */")
	case 7: // empty block comment lines and a comment holding what looks like a terminator of a string
		b.add("/*")
		b.add("")
		b.add("` \" ' */ id(2) // */")
	}
}

func (b *builder) text() string { return strings.Join(b.lines, "\n") + "\n" }

var failures = []struct {
	name string
	stmt string
	pre  string // declaration needed before (inside the same function)
}{
	{"throw", `throw "boom"`, ""},
	{"operator", "q := 1 / zero", "zero := 0"},
	{"builtin", `q := int([])`, ""},
	{"argcount", "q := two(1)", "two := func(a, b) { return a }"},
	{"index", "q := [1][5]", ""},
	{"notcallable", "q := zero()", "zero := 0"},
	// sub-expressions that the optimizer replaces by a constant, as operands of the failing operation
	{"operator-folded-operand", "q := len(\"abcd\") * 25 / zero", "zero := 0"},
	{"operator-const-operand", "q := kk / zero", "const kk = 10; zero := 0"},
	{"index-folded-operand", "q := [1, 2][2 * 1.5 + len(\"ab\")]", ""},
	{"builtin-folded-argument", "q := int([1 + 2, !true])", ""},
	{"operator-negative-literal-operand", "q := -1 / zero", "zero := 0"},
	{"operator-folded-unary-operand", "q := !true % zero + ^5", "zero := 0"},
	// two string literals folded into one by the optimizer, as the operand the failing operator starts with
	{"operator-folded-string-operand", "q := \"it\" + \"em\" - zero", "zero := 0"},
	{"index-folded-string-operand", "q := (\"a\" + \"b\")[five]", "five := 5"},
	// unary operators fail too; their operand is a plain variable (nothing else on the line has a position of its own)
	{"unary-minus-variable", "q := -str", "str := \"s\""},
	{"unary-xor-variable", "q := ^str", "str := \"s\""},
	{"unary-plus-free-variable", "q := +id", ""},
	{"unary-minus-as-statement", "-id", ""},
}

func callStmt(form int, callee string) string {
	switch form {
	case 0:
		return callee + "()"
	case 1:
		return "r := " + callee + "()"
	case 2:
		return "return " + callee + "()"
	case 3:
		return "r := id(" + callee + "())"
	case 4:
		// a folded constant directly after / before the call
		return "r := " + callee + "() + len(\"ab\") * 2"
	case 5:
		return "r := [len(\"ab\") * 2, " + callee + "()]"
	case 6:
		// a negative literal (folded unary minus) is the first thing compiled after the call
		return "r := [" + callee + "(), -1]"
	default:
		// folded string concatenation directly after the call
		return "r := [" + callee + "(), \"<\" + \">\"]"
	}
}

const nForms = 8

const nLayouts = 10

type pos struct {
	file string
	line int
}

type program struct {
	main    string
	module  string
	expect  []pos
	desc    string
	mainLen int
	modLen  int
	globals ugo.Map
}

// wrapMode: where the call statements of the chain are placed (0 plain; 1 in a finally block; 2 in a catch block;
// 3 in a try body followed by finally). Set by the family "wrapped-calls".
var wrapMode int

// build constructs one program. forms[i] is the call form used by the caller of f_i (forms[0] = main's call of f0).
func build(d int, fail int, forms []int, layout, position, style int, moduleBodyFails bool) program {
	f := failures[fail]
	var expect []pos
	emitBody := func(b *builder, file string, indent string, level int, inner func()) {
		// body of f_level: filler, optional nested definition (inner), the statement, filler
		if position >= 1 {
			b.add(indent + "a := 1")
			b.gap(layout)
		}
		if position == 2 {
			b.add(indent + "b := a + 1")
			b.gap(layout)
		}
		if inner != nil {
			inner()
		}
		if level == d {
			if f.pre != "" {
				b.add(indent + f.pre)
				b.gap(layout)
			}
			ln := b.add(indent + f.stmt)
			expect = append(expect, pos{file, ln})
		} else {
			call := callStmt(forms[level+1], fmt.Sprintf("f%d", level+1))
			var ln int
			switch wrapMode {
			case 1: // the call is made from inside a finally block
				b.add(indent + "try {")
				b.add(indent + "\tw := 1")
				b.add(indent + "} finally {")
				ln = b.add(indent + "\t" + call)
				b.add(indent + "}")
			case 2: // from inside a catch block
				b.add(indent + "try {")
				b.add(indent + "\tthrow \"w\"")
				b.add(indent + "} catch we {")
				ln = b.add(indent + "\t" + call)
				b.add(indent + "}")
			case 3: // from inside a try body that has a finally block
				b.add(indent + "try {")
				ln = b.add(indent + "\t" + call)
				b.add(indent + "} finally {")
				b.add(indent + "\tw := 2")
				b.add(indent + "}")
			default:
				ln = b.add(indent + call)
			}
			expect = append(expect, pos{file, ln})
		}
		if position == 0 {
			b.gap(layout)
			b.add(indent + "c := 3")
		}
	}
	p := program{desc: fmt.Sprintf("d=%d fail=%s forms=%v layout=%d position=%d style=%d", d, f.name, forms, layout, position, style)}
	mainB := &builder{}
	mainB.add("global L")
	mainB.add("id := func(x) { return x }")
	switch style {
	case 0: // all functions at top level of main, callee first
		var defs []func()
		for lvl := d; lvl >= 0; lvl-- {
			lvl := lvl
			defs = append(defs, func() {
				mainB.gap(layout)
				mainB.add(fmt.Sprintf("f%d := func() {", lvl))
				emitBody(mainB, "(main)", "\t", lvl, nil)
				mainB.add("}")
			})
		}
		// expected order must be outermost first: collect per level then reorder
		perLevel := make([]pos, d+1)
		for i, def := range defs {
			before := len(expect)
			def()
			perLevel[d-i] = expect[before]
		}
		expect = nil
		mainB.gap(layout)
		ln := mainB.add(callStmt(forms[0], "f0"))
		expect = append(expect, pos{"(main)", ln})
		expect = append(expect, perLevel...)
	case 1: // each function is defined inside its caller, right before the call
		var nest func(lvl int, indent string)
		var collected []pos
		nest = func(lvl int, indent string) {
			mainB.add(fmt.Sprintf("%sf%d := func() {", indent, lvl))
			var inner func()
			if lvl < d {
				inner = func() { nest(lvl+1, indent+"\t") }
			}
			before := len(expect)
			emitBody(mainB, "(main)", indent+"\t", lvl, inner)
			_ = before
			mainB.add(indent + "}")
			mainB.gap(layout)
		}
		nest(0, "")
		collected = append(collected, expect...)
		// emitBody appended positions innermost-first for nested definitions? No: inner() runs before the
		// statement of the enclosing level is added, so deeper levels are appended first.
		expect = nil
		ln := mainB.add(callStmt(forms[0], "f0"))
		expect = append(expect, pos{"(main)", ln})
		for i := len(collected) - 1; i >= 0; i-- {
			expect = append(expect, collected[i])
		}
	case 2: // functions live in an imported source module (second file)
		modB := &builder{}
		modB.add("id := func(x) { return x }")
		perLevel := make([]pos, d+1)
		for lvl := d; lvl >= 0; lvl-- {
			modB.gap(layout)
			modB.add(fmt.Sprintf("f%d := func() {", lvl))
			before := len(expect)
			emitBody(modB, "mod", "\t", lvl, nil)
			perLevel[lvl] = expect[before]
			modB.add("}")
		}
		expect = nil
		if moduleBodyFails {
			// the module body itself calls f0 while being imported
			modB.gap(layout)
			ln := modB.add(callStmt(forms[0]%2, "f0")) // statement or assignment form
			modB.add("return {f0: f0}")
			mainB.gap(layout)
			iln := mainB.add(`m := import("mod")`)
			expect = append(expect, pos{"(main)", iln}, pos{"mod", ln})
			expect = append(expect, perLevel...)
		} else {
			modB.add("return {f0: f0}")
			mainB.gap(layout)
			mainB.add(`m := import("mod")`)
			mainB.add("f0 := m.f0")
			mainB.gap(layout)
			ln := mainB.add(callStmt(forms[0], "f0"))
			expect = append(expect, pos{"(main)", ln})
			expect = append(expect, perLevel...)
		}
		p.module = modB.text()
	}
	mainB.add("return 1")
	p.main = mainB.text()
	p.expect = expect
	return p
}

func run16(c *fw.Ctx) {
	maxD := 4
	if c.Thorough() {
		maxD = 6
	}
	c.Family("uniform-forms", fmt.Sprintf("d <= %d x %d failures x 8 forms x 10 layouts (blank, line and block comments incl. multi-line and trailing ones, raw strings over lines) x 3 positions x 4 styles", maxD, len(failures)))
	for d := 0; d <= maxD; d++ {
		for fi := range failures {
			for form := 0; form < nForms; form++ {
				forms := make([]int, d+1)
				for i := range forms {
					forms[i] = form
				}
				for layout := 0; layout < nLayouts; layout++ {
					for position := 0; position < 3; position++ {
						for style := 0; style < 4; style++ {
							if !c.Next() {
								continue
							}
							st, mb := style, false
							if style == 3 {
								st, mb = 2, true
							}
							check(c, build(d, fi, forms, layout, position, st, mb), d)
						}
					}
				}
			}
		}
	}
	c.Family("wrapped-calls", "d <= 2 x failures x 3 call forms x calls placed in a finally block / a catch block / a try body with finally x 3 styles")
	for wm := 1; wm <= 3; wm++ {
		for d := 1; d <= 2; d++ {
			for fi := range failures {
				for form := 0; form < 3; form++ {
					forms := make([]int, d+1)
					for i := range forms {
						forms[i] = form
					}
					forms[0] = 0 // main's own call stays a plain statement (return is not allowed in a finally at top level)
					for style := 0; style < 3; style++ {
						if !c.Next() {
							continue
						}
						wrapMode = wm
						p := build(d, fi, forms, 0, 1, style, false)
						wrapMode = 0
						p.desc += fmt.Sprintf(" wrap=%d", wm)
						check(c, p, d)
					}
				}
			}
		}
	}
	// recursion: the same call statement is active in several frames at once; the trace lists its line once per frame
	c.Family("recursion", "self recursion of depth 1..4 (thorough 8) and mutual recursion through one call statement x 7 call forms x failures x wrapper depth 0..1; frames compared one by one")
	maxR := 4
	if c.Thorough() {
		maxR = 8
	}
	for depth := 1; depth <= maxR; depth++ {
		for fi := range failures {
			for form := 0; form < nForms; form++ {
				for variant := 0; variant < 4; variant++ {
					if !c.Next() {
						continue
					}
					check(c, buildRecursion(depth, fi, form, variant), depth)
				}
			}
		}
	}
	// callbacks: the failing function is a script function that a Go function calls back (Invoker, plain or pooled) on
	// behalf of a call statement of the script; that statement's function is still active and its line belongs to the trace
	c.Family("callbacks", "failure in a script function invoked from Go (Invoker plain/pooled, one or two levels of call-back) under a chain of d <= 2 script functions x failures x 3 call forms")
	for d := 0; d <= 2; d++ {
		for fi := range failures {
			for form := 0; form < 3; form++ {
				for variant := 0; variant < 4; variant++ {
					if !c.Next() {
						continue
					}
					check(c, buildCallback(d, fi, form, variant), d+1)
				}
			}
		}
	}
	c.Family("first-byte", "the failing statement / the call statement / the import is the very first byte of its file")
	firsts := []program{
		{desc: "first-byte: throw at byte 0 of main", main: "throw \"first\"\nreturn 1\n", expect: []pos{{"(main)", 1}}},
		{desc: "first-byte: index error at byte 0 of main", main: "[1][5]\nreturn 1\n", expect: []pos{{"(main)", 1}}},
		{desc: "first-byte: import at byte 0, module fails at its byte 0", main: "import(\"mod\")\nreturn 1\n", module: "throw \"in module\"\n", expect: []pos{{"(main)", 1}, {"mod", 1}}},
		{desc: "first-byte: module function defined at byte 0 fails on its first line", main: "m := import(\"mod\")\n\nm()\n", module: "return func() { throw \"x\" }\n", expect: []pos{{"(main)", 3}, {"mod", 1}}},
		{desc: "first-byte: module fails at byte 0 called from depth 1", main: "f := func() {\n\treturn import(\"mod\")\n}\nf()\n", module: "[][1]\n", expect: []pos{{"(main)", 4}, {"(main)", 2}, {"mod", 1}}},
	}
	for _, p := range firsts {
		if c.Next() {
			check(c, p, 1)
		}
	}
	if c.Thorough() {
		c.Family("mixed-forms", "d <= 3: every assignment of the 4 call forms to the levels x failures x styles")
		for d := 1; d <= 3; d++ {
			n := 1
			for i := 0; i <= d; i++ {
				n *= 4
			}
			for code := 0; code < n; code++ {
				forms := make([]int, d+1)
				x := code
				for i := range forms {
					forms[i] = x % 4
					x /= 4
				}
				for fi := range failures {
					for style := 0; style < 3; style++ {
						if !c.Next() {
							continue
						}
						check(c, build(d, fi, forms, 1, 1, style, false), d)
					}
				}
			}
		}
	}
}

func check(c *fw.Ctx, p program, d int) {
	if c.Skip(p.desc) {
		return
	}
	c.AddStates(1)
	if d >= 1 {
		c.Nontrivial()
	}
	want := p.expect
	c.Sample(map[string]any{"desc": p.desc, "main": p.main, "module": p.module, "expected": fmt.Sprint(want)})
	for _, k := range []int{0, 1, 3} {
		main := strings.Repeat("\n", k) + p.main
		sizes := map[string]int{"(main)": len(main), "mod": len(p.module)}
		for _, noopt := range []bool{false, true} {
			for _, rt := range []int{0, 1} {
				opt := run.Options{NoOptimize: noopt, EncodeDecode: rt}
				if p.module != "" {
					opt.Modules = map[string]string{"mod": p.module}
				}
				opt.Globals = p.globals
				o := run.Source(main, opt)
				c.AddTransitions(1)
				c.AddTraces(1)
				cfg := fmt.Sprintf("k=%d noopt=%v roundtrips=%d", k, noopt, rt)
				fail := func(msg string) {
					c.Violation(p.desc+"|"+cfg, msg, map[string]any{"main": main, "module": p.module, "config": cfg, "expected": fmt.Sprint(want), "observed": o.String(), "trace": fmt.Sprint(o.Trace, o.TraceFiles)})
				}
				if o.CompileErr != "" || o.CompilePan != "" || o.CodecErr != "" || o.Panic != "" {
					fail("program does not run: " + o.String())
					return
				}
				if o.ErrName == "" && o.ErrText == "" {
					fail("program was constructed to fail but returned " + o.Val)
					return
				}
				var got []pos
				for i := range o.Trace {
					got = append(got, pos{o.TraceFiles[i], o.Trace[i]})
					if o.TraceOffs[i] < 0 || o.TraceOffs[i] > sizes[o.TraceFiles[i]] {
						fail(fmt.Sprintf("reported position offset %d lies outside file %q of size %d", o.TraceOffs[i], o.TraceFiles[i], sizes[o.TraceFiles[i]]))
						return
					}
				}
				exp := make([]pos, len(want))
				for i, w := range want {
					exp[i] = w
					if w.file == "(main)" {
						exp[i].line += k
					}
				}
				if fmt.Sprint(got) != fmt.Sprint(exp) {
					fail(fmt.Sprintf("stack trace %v, expected %v (%s)", got, exp, cfg))
					return
				}
			}
		}
	}
	_ = ugo.Undefined
}

// buildRecursion: f calls itself depth times through ONE call statement and then fails. variant 0: called from main;
// 1: called from a wrapper function; 2: mutual recursion f -> g -> f (two call statements alternate); 3: the recursion
// runs inside an imported module.
func buildRecursion(depth, fail, form, variant int) program {
	f := failures[fail]
	b := &builder{}
	var expect []pos
	file := "(main)"
	if variant == 3 {
		file = "mod"
	}
	b.add("id := func(x) { return x }")
	b.add("var (f, g)")
	b.add("f = func(n) {")
	if f.pre != "" {
		b.add("\t" + f.pre)
	}
	b.add("\tif n == 0 {")
	failLn := b.add("\t\t" + f.stmt)
	b.add("\t}")
	callee := "f"
	if variant == 2 {
		callee = "g"
	}
	recLn := b.add("\t" + strings.Replace(callStmt(form, callee), callee+"()", callee+"(n - 1)", 1))
	b.add("\treturn 0")
	b.add("}")
	gLn := 0
	if variant == 2 {
		b.add("g = func(n) {")
		gLn = b.add("\t" + strings.Replace(callStmt(form, "f"), "f()", "f(n)", 1))
		b.add("\treturn 0")
		b.add("}")
	}
	start := fmt.Sprintf("f(%d)", depth)
	var head []pos
	if variant == 1 {
		b.add("w := func() {")
		wLn := b.add("\tr := " + start)
		b.add("\treturn r")
		b.add("}")
		ln := b.add("w()")
		head = []pos{{file, ln}, {file, wLn}}
	} else {
		ln := b.add("r := " + start)
		head = []pos{{file, ln}}
	}
	b.add("return 1")
	p := program{desc: fmt.Sprintf("recursion depth=%d fail=%s form=%d variant=%d", depth, f.name, form, variant)}
	if variant == 3 {
		p.module = b.text()
		mb := &builder{}
		ln := mb.add("import(\"mod\")")
		mb.add("return 1")
		p.main = mb.text()
		expect = append(expect, pos{"(main)", ln})
	} else {
		p.main = b.text()
	}
	expect = append(expect, head...)
	for i := 0; i < depth; i++ {
		if form == 2 && variant != 2 {
			// `return f(n - 1)`: a self call in tail position re-uses the frame, no call statement stays active
			break
		}
		expect = append(expect, pos{file, recLn})
		if variant == 2 {
			expect = append(expect, pos{file, gLn})
		}
	}
	expect = append(expect, pos{file, failLn})
	p.expect = expect
	return p
}

// callGlobals: CALL(f, args...) invokes f through an Invoker, PCALL through a pooled one.
func callGlobals() ugo.Map {
	mk := func(pooled bool) *ugo.Function {
		return &ugo.Function{Name: "CALL", ValueEx: func(c ugo.Call) (ugo.Object, error) {
			inv := ugo.NewInvoker(c.VM(), c.Get(0))
			if pooled {
				inv.Acquire()
				defer inv.Release()
			}
			var args []ugo.Object
			for i := 1; i < c.Len(); i++ {
				args = append(args, c.Get(i))
			}
			return inv.Invoke(args...)
		}}
	}
	return ugo.Map{"CALL": mk(false), "PCALL": mk(true)}
}

// buildCallback: main -> f0 -> ... -> f(d-1) -> CALL(cb) -> cb fails. variant&1: pooled Invoker; variant&2: two levels
// (cb calls CALL(cb2), cb2 fails).
func buildCallback(d, fail, form, variant int) program {
	f := failures[fail]
	b := &builder{}
	call := "CALL"
	if variant&1 == 1 {
		call = "PCALL"
	}
	b.add("global (CALL, PCALL)")
	b.add("id := func(x) { return x }")
	var tail []pos
	if variant&2 == 2 {
		b.add("cb2 := func() {")
		if f.pre != "" {
			b.add("\t" + f.pre)
		}
		l2 := b.add("\t" + f.stmt)
		b.add("\treturn 0")
		b.add("}")
		b.add("cb := func() {")
		l1 := b.add("\t" + strings.Replace(callStmt(form, "XX"), "XX()", call+"(cb2)", 1))
		b.add("\treturn 0")
		b.add("}")
		tail = []pos{{"(main)", l1}, {"(main)", l2}}
	} else {
		b.add("cb := func() {")
		if f.pre != "" {
			b.add("\t" + f.pre)
		}
		l1 := b.add("\t" + f.stmt)
		b.add("\treturn 0")
		b.add("}")
		tail = []pos{{"(main)", l1}}
	}
	// chain, innermost first
	lines := make([]pos, d+1)
	for lvl := d; lvl >= 1; lvl-- {
		b.add(fmt.Sprintf("f%d := func() {", lvl))
		var st string
		if lvl == d {
			st = strings.Replace(callStmt(form, "XX"), "XX()", call+"(cb)", 1)
		} else {
			st = callStmt(form, fmt.Sprintf("f%d", lvl+1))
		}
		lines[lvl] = pos{"(main)", b.add("\t" + st)}
		b.add("\treturn 0")
		b.add("}")
	}
	if d == 0 {
		lines[0] = pos{"(main)", b.add("r := " + call + "(cb)")}
	} else {
		lines[0] = pos{"(main)", b.add("r := f1()")}
	}
	b.add("return 1")
	p := program{desc: fmt.Sprintf("callback d=%d fail=%s form=%d variant=%d", d, f.name, form, variant), main: b.text(), globals: callGlobals()}
	p.expect = append(append([]pos{}, lines...), tail...)
	return p
}
