// Package c19 decides C19: builtin and standard-library functions are total
// over their arguments. Every callable is called with every argument tuple of
// a boundary pool through three routes; workers run under a memory limit and a
// per-call timeout so that fatal runtime errors and hangs are attributed to the
// exact call.
package c19

import (
	"fmt"
	"io"
	"os"
	"regexp"
	"sort"
	"time"

	"github.com/ozanh/ugo"
	ufmt "github.com/ozanh/ugo/stdlib/fmt"
	ujson "github.com/ozanh/ugo/stdlib/json"
	ustrings "github.com/ozanh/ugo/stdlib/strings"
	utime "github.com/ozanh/ugo/stdlib/time"

	"verif/internal/fw"
	"verif/internal/uv"
)

func init() {
	fw.Register(&fw.Check{
		ID:    "C19",
		Level: "exploration",
		Rule: "every callable (all ugo.BuiltinObjects functions, error values' New, every function of the fmt/json/strings/time module maps, every method name of time values via CallName) x " +
			"every argument tuple of length 0..3 (thorough: 0..4 over a reduced pool for the 4th) over a 28-value boundary pool x three routes (Object.Call, CallEx with a VM, script call `f(...args)` on a VM without recovery); " +
			"oracle: the call returns (no panic, no fatal runtime error under a 2 GiB address-space limit, no hang > 20 s), a nil error comes with a non-nil Object; " +
			"non-trivial = the tuple is not rejected by an arity check (the call returns no WrongNumberOfArgumentsError)",
		Run:         run,
		MarkCases:   true,
		MemLimitKB:  2 * 1024 * 1024,
		CaseTimeout: 20 * time.Second,
		Assumptions: []string{
			"time.Sleep with a duration > 1ms is excluded (blocking is its specification); stdin is /dev/null; PrintWriter is discarded",
			"a fatal runtime error (out of memory) under ulimit -v 2 GiB counts as a crash",
		},
	})
}

type callable struct {
	name string
	obj  ugo.Object // callable object, or receiver for methods
	meth string     // method name for CallName
}

func callables() []callable {
	var out []callable
	for i, o := range ugo.BuiltinObjects {
		switch v := o.(type) {
		case *ugo.BuiltinFunction:
			if v.Name == ":makeArray" {
				continue // compiler-internal helper of destructuring, not nameable by any script
			}
			out = append(out, callable{name: "builtin:" + v.Name, obj: v})
		case *ugo.Error:
			if f, err := v.IndexGet(ugo.String("New")); err == nil {
				out = append(out, callable{name: fmt.Sprintf("builtin-error:%s.New", v.Name), obj: f})
			}
		default:
			_ = i
		}
	}
	mods := map[string]map[string]ugo.Object{"fmt": ufmt.Module, "json": ujson.Module, "strings": ustrings.Module, "time": utime.Module}
	var mnames []string
	for m := range mods {
		mnames = append(mnames, m)
	}
	sort.Strings(mnames)
	for _, m := range mnames {
		var fns []string
		for k, v := range mods[m] {
			if v.CanCall() {
				fns = append(fns, k)
			}
		}
		sort.Strings(fns)
		for _, k := range fns {
			out = append(out, callable{name: m + "." + k, obj: mods[m][k]})
		}
	}
	// method names of time values: read from the source so that new methods are picked up
	names := []string{"Add", "Sub", "AddDate", "After", "Before", "Format", "AppendFormat", "In", "Round", "Truncate", "Equal", "Date", "Clock", "UTC", "Unix", "UnixNano",
		"Year", "Month", "Day", "Hour", "Minute", "Second", "Nanosecond", "IsZero", "Local", "Location", "YearDay", "Weekday", "ISOWeek", "Zone"}
	if b, err := os.ReadFile("/repo/stdlib/time/time.go"); err == nil {
		seen := map[string]bool{}
		for _, n := range names {
			seen[n] = true
		}
		for _, m := range regexp.MustCompile(`(?m)^\t"(\w+)": func\(o \*Time`).FindAllStringSubmatch(string(b), -1) {
			if !seen[m[1]] {
				names = append(names, m[1])
				seen[m[1]] = true
			}
		}
	}
	names = append(names, "NoSuchMethod")
	for _, n := range names {
		out = append(out, callable{name: "time-value." + n, obj: nil, meth: n})
	}
	// error values created by scripts
	out = append(out, callable{name: "error-value.New", meth: "\x00errnew"})
	return out
}

var compiledFn ugo.Object

func poolSize() int { return 29 }

// arg builds a fresh i-th pool value (callees may mutate their arguments).
func arg(i int) ugo.Object {
	switch i {
	case 0:
		return ugo.Int(0)
	case 1:
		return ugo.Int(1)
	case 2:
		return ugo.Int(-1)
	case 3:
		return ugo.Int(255)
	case 4:
		// large but honourable on any machine; sizes that merely exhaust this sandbox's
		// memory are not "too large to honour" (docs: uGO has no allocation limit)
		return ugo.Int(1 << 20)
	case 5:
		return ugo.Int(1 << 62)
	case 6:
		return ugo.Int(-1 << 63)
	case 7:
		return ugo.Uint(2)
	case 8:
		return ugo.Float(1.5)
	case 9:
		return ugo.Float(nan())
	case 10:
		return ugo.True
	case 11:
		return ugo.Char('a')
	case 12:
		return ugo.String("")
	case 13:
		return ugo.String("ab")
	case 14:
		return ugo.String("%d %s %v")
	case 15:
		return ugo.String("2006-01-02")
	case 16:
		// ends in a truncated multi-byte sequence (the first two bytes of U+2028)
		return ugo.Bytes{'"', 'a', 0xE2, 0x80}
	case 17:
		return ugo.Array{}
	case 18:
		return ugo.Array{ugo.Int(1), ugo.String("a")}
	case 19:
		return ugo.Map{}
	case 20:
		return ugo.Map{"a": ugo.Int(1)}
	case 21:
		return ugo.Undefined
	case 22:
		return &ugo.Error{Name: "E", Message: "m"}
	case 23:
		return compiledFn
	case 24:
		return &utime.Time{Value: time.Date(2020, 1, 2, 3, 4, 5, 6, time.UTC)}
	case 25:
		// several mutually incomparable elements (sort, contains, ... compare them pairwise)
		return ugo.Array{ugo.String("a"), ugo.Int(1), ugo.String("b"), ugo.Map{}, ugo.Undefined, ugo.Array{}}
	case 26:
		// a quoted string that grows while it is decoded: six malformed bytes (each becomes a 3-byte U+FFFD) and a tail
		return ugo.Bytes("\"\xff\xff\xff\xff\xff\xfftttttttttttt\"")
	case 27:
		// a callable that is not a compiled function (callbacks are usually given script functions)
		return ugo.BuiltinObjects[ugo.BuiltinLen]
	case 28:
		// a JSON document whose last string ends in an escaped, unpaired surrogate (decoders look ahead for its pair)
		return ugo.String(`["x","\ud83d"]`)
	}
	panic("pool")
}

func nan() float64 { z := 0.0; return z / z }

// the 4th argument of thorough 4-tuples comes from a reduced pool
var pool4 = []int{1, 2, 5, 13, 18, 21}

type env struct {
	c        *fw.Ctx
	vm       *ugo.VM
	callBC   *ugo.Bytecode
	callVM   *ugo.VM
	methBC   map[string]*ugo.Bytecode
	methVM   map[string]*ugo.VM
	emptyBC  *ugo.Bytecode
	tuples   int64
	rejected int64
}

func run(c *fw.Ctx) {
	ugo.PrintWriter = io.Discard
	bc, err := ugo.Compile([]byte("return func(...a) { return len(a) }"), ugo.CompilerOptions{})
	if err != nil {
		c.Infra("compile: %v", err)
		return
	}
	compiledFn, _ = ugo.NewVM(bc).Run(nil)
	e := &env{c: c, methBC: map[string]*ugo.Bytecode{}, methVM: map[string]*ugo.VM{}}
	e.emptyBC, _ = ugo.Compile([]byte("return 0"), ugo.CompilerOptions{})
	e.vm = ugo.NewVM(e.emptyBC)
	e.vm.Run(nil) // a VM that has run: globals() etc. see an initialised VM
	e.callBC, err = ugo.Compile([]byte("param (f, ...a); return f(...a)"), ugo.CompilerOptions{})
	if err != nil {
		c.Infra("compile: %v", err)
		return
	}
	maxLen := 3
	if c.Thorough() {
		maxLen = 4
	}
	n := poolSize()
	for _, cl := range callables() {
		c.Family(cl.name, fmt.Sprintf("tuples of length 0..%d over the %d-value pool", maxLen, n))
		idx := make([]int, 0, maxLen)
		var rec func(depth int)
		rec = func(depth int) {
			if c.Next() {
				e.call(cl, idx)
			}
			if depth == maxLen {
				return
			}
			if depth == 3 {
				for _, i := range pool4 {
					idx = append(idx, i)
					rec(depth + 1)
					idx = idx[:len(idx)-1]
				}
				return
			}
			for i := 0; i < n; i++ {
				idx = append(idx, i)
				rec(depth + 1)
				idx = idx[:len(idx)-1]
			}
		}
		rec(0)
	}
	// time.Sleep sleeps in slices of 10 ms and looks at the VM between them: durations around that slice, through the
	// route without a VM as well (the pool above stops at 1 ms because blocking is what Sleep is for)
	c.Family("time.Sleep:durations", "durations 0, 1 ms, 10 ms, 10 ms + 1 ns, 25 ms through Call, CallEx with and without a VM and a script call")
	sleep := utime.Module["Sleep"]
	for _, d := range []int64{0, 1000000, 10000000, 10000001, 25000000} {
		if !c.Next() {
			continue
		}
		desc := fmt.Sprintf("time.Sleep(%d)", d)
		rep := func(route string, o ugo.Object, err error, pan any) {
			if pan != nil {
				c.Violation(route+"|"+desc, fmt.Sprintf("%s panics via %s: %v", desc, route, pan), nil)
			} else if err == nil && o == nil {
				c.Violation(route+"|"+desc, fmt.Sprintf("%s via %s returns neither a value nor an error", desc, route), nil)
			}
		}
		c.Mark("call|" + desc)
		o, err, pan := protect(func() (ugo.Object, error) { return sleep.Call(ugo.Int(d)) })
		rep("call", o, err, pan)
		if ex, ok := sleep.(ugo.ExCallerObject); ok {
			c.Mark("callex|" + desc)
			o, err, pan = protect(func() (ugo.Object, error) { return ex.CallEx(ugo.NewCall(e.vm, []ugo.Object{ugo.Int(d)})) })
			rep("callex", o, err, pan)
			c.Mark("callex-novm|" + desc)
			o, err, pan = protect(func() (ugo.Object, error) { return ex.CallEx(ugo.NewCall(nil, []ugo.Object{ugo.Int(d)})) })
			rep("callex-novm", o, err, pan)
		}
		c.Mark("script|" + desc)
		vm := ugo.NewVM(e.callBC)
		o, err, pan = protect(func() (ugo.Object, error) { return vm.Run(nil, sleep, ugo.Int(d)) })
		rep("script", o, err, pan)
		c.Nontrivial()
	}
}

func (e *env) args(idx []int) []ugo.Object {
	out := make([]ugo.Object, len(idx))
	for i, k := range idx {
		out[i] = arg(k)
	}
	return out
}

func describe(cl callable, idx []int) string {
	s := cl.name + "("
	for i, k := range idx {
		if i > 0 {
			s += ", "
		}
		r := uv.Repr(arg(k))
		if len(r) > 40 {
			r = r[:40] + "…"
		}
		s += r
	}
	return s + ")"
}

func protect(f func() (ugo.Object, error)) (o ugo.Object, err error, pan any) {
	defer func() {
		if r := recover(); r != nil {
			pan = r
		}
	}()
	o, err = f()
	return
}

func (e *env) call(cl callable, idx []int) {
	c := e.c
	// excluded by construction: blocking sleeps
	if cl.name == "time.Sleep" && len(idx) > 0 {
		if d, ok := ugo.ToGoInt64(arg(idx[0])); ok && d > 1000000 {
			c.Count("excluded_sleep", 1)
			return
		}
		if f, ok := arg(idx[0]).(ugo.Float); ok && (f != f || f > 1e6) {
			c.Count("excluded_sleep", 1)
			return
		}
	}
	desc := describe(cl, idx)
	rejected := false
	report := func(route string, o ugo.Object, err error, pan any) {
		if pan != nil {
			c.Violation(route+"|"+desc, fmt.Sprintf("%s panics via %s: %v", desc, route, pan), nil)
			return
		}
		if err == nil && o == nil {
			c.Violation(route+"|"+desc, fmt.Sprintf("%s via %s returns neither a value nor an error", desc, route), nil)
		}
		if err != nil && uv.ErrName(err) == "WrongNumberOfArgumentsError" {
			rejected = true
		}
	}
	if cl.meth != "" {
		e.method(cl, idx, desc, report)
	} else {
		callee := cl.obj
		c.Mark("call|" + desc)
		o, err, pan := protect(func() (ugo.Object, error) { return callee.Call(e.args(idx)...) })
		report("call", o, err, pan)
		if ex, ok := callee.(ugo.ExCallerObject); ok {
			c.Mark("callex|" + desc)
			o, err, pan = protect(func() (ugo.Object, error) { return ex.CallEx(ugo.NewCall(e.vm, e.args(idx))) })
			report("callex", o, err, pan)
			// the same entry point with a Call that carries no VM (ugo.NewCall(nil, ...), what a host writes when it
			// calls a module function directly)
			if len(idx) <= 2 {
				c.Mark("callex-novm|" + desc)
				o, err, pan = protect(func() (ugo.Object, error) { return ex.CallEx(ugo.NewCall(nil, e.args(idx))) })
				report("callex-novm", o, err, pan)
			}
			// arguments split between positional and variadic part, as the VM passes them for f(a, ...rest)
			if len(idx) >= 2 {
				c.Mark("callex-split|" + desc)
				o, err, pan = protect(func() (ugo.Object, error) {
					a := e.args(idx)
					return ex.CallEx(ugo.NewCall(e.vm, a[:1], a[1:]...))
				})
				report("callex-split", o, err, pan)
			}
		}
		c.Mark("script|" + desc)
		if e.callVM == nil {
			e.callVM = ugo.NewVM(e.callBC)
		}
		vm := e.callVM
		o, err, pan = protect(func() (ugo.Object, error) {
			return vm.Run(nil, append([]ugo.Object{callee}, e.args(idx)...)...)
		})
		if pan != nil {
			e.callVM = nil
		}
		report("script", o, err, pan)
	}
	if !rejected {
		c.Nontrivial()
		c.Sample(desc)
	}
}

func (e *env) method(cl callable, idx []int, desc string, report func(string, ugo.Object, error, any)) {
	c := e.c
	if cl.meth == "\x00errnew" {
		recv := &ugo.RuntimeError{Err: &ugo.Error{Name: "E", Message: "m"}}
		for _, r := range []ugo.Object{recv, &ugo.Error{Name: "E", Message: "m"}} {
			f, err := r.IndexGet(ugo.String("New"))
			if err != nil || f == nil {
				continue
			}
			c.Mark("call|" + desc)
			o, err, pan := protect(func() (ugo.Object, error) { return f.Call(e.args(idx)...) })
			report("call", o, err, pan)
		}
		return
	}
	recv := &utime.Time{Value: time.Date(2021, 5, 6, 7, 8, 9, 10, time.UTC)}
	c.Mark("callname|" + desc)
	o, err, pan := protect(func() (ugo.Object, error) { return recv.CallName(cl.meth, ugo.NewCall(e.vm, e.args(idx))) })
	report("callname", o, err, pan)
	bc := e.methBC[cl.meth]
	if bc == nil {
		var cerr error
		bc, cerr = ugo.Compile([]byte("param (o, ...a); return o."+cl.meth+"(...a)"), ugo.CompilerOptions{})
		if cerr != nil {
			c.Infra("compile method call %s: %v", cl.meth, cerr)
			return
		}
		e.methBC[cl.meth] = bc
	}
	vm := e.methVM[cl.meth]
	if vm == nil {
		vm = ugo.NewVM(bc)
		e.methVM[cl.meth] = vm
	}
	c.Mark("script|" + desc)
	o, err, pan = protect(func() (ugo.Object, error) {
		return vm.Run(nil, append([]ugo.Object{recv}, e.args(idx)...)...)
	})
	if pan != nil {
		delete(e.methVM, cl.meth)
	}
	report("script", o, err, pan)
}
