// Package c04 decides C04: encoding bytecode and decoding it again preserves
// behaviour (also after a second round trip).
package c04

import (
	"bytes"
	"fmt"
	"strings"
	"time"

	"github.com/ozanh/ugo"
	"github.com/ozanh/ugo/encoder"
	ufmt "github.com/ozanh/ugo/stdlib/fmt"
	ujson "github.com/ozanh/ugo/stdlib/json"
	ustrings "github.com/ozanh/ugo/stdlib/strings"
	utime "github.com/ozanh/ugo/stdlib/time"

	"verif/checks/c02"
	"verif/checks/c03"
	"verif/checks/c11"
	"verif/internal/bcv"
	"verif/internal/fw"
	"verif/internal/gen"
	"verif/internal/run"
)

func init() {
	fw.Register(&fw.Check{
		ID:    "C04",
		Level: "exploration",
		Rule: "programs = (a) the corpora of C02, C03 (cores <= 2; thorough 3) and the jump grammar of C11 (x 4 inputs), one statement per line; (b) one program per constant kind/value (every varint length, extreme ints/uints, NaN/Inf/-0/subnormal floats, chars incl. negative and maximal, empty/long/non-UTF-8 strings at every length-prefix boundary, nested functions, 300 constants); " +
			"(c) builtin-module maps with an attribute of every value type incl. functions nested in containers and several gob-fallback values, the real strings/time/json/fmt modules, source modules with errors in a second file - decoded with the same module map, a map lacking the module and a map whose item has another type. " +
			"Oracle: run(bc) == run(dec(enc(bc))) == run(dec(enc(dec(enc(bc))))) on value, probe log, output, globals, error name+message and stack-trace lines/files; decoded bytecode passes the structural verifier; encoding leaves the original Bytecode structurally unchanged. " +
			"non-trivial = the program has a non-primitive constant (function/module) or a source map with >= 2 lines",
		Run: run4,
	})
}

func roundTrip(bc *ugo.Bytecode, mm *ugo.ModuleMap) (dec *ugo.Bytecode, err error) {
	defer func() {
		if r := recover(); r != nil {
			err = fmt.Errorf("codec panics: %v", r)
		}
	}()
	var buf bytes.Buffer
	if err = encoder.EncodeBytecodeTo(bc, &buf); err != nil {
		return nil, fmt.Errorf("encode: %w", err)
	}
	return encoder.DecodeBytecodeFrom(&buf, mm)
}

type prog struct {
	src     string
	mm      *ugo.ModuleMap
	inputs  [][]ugo.Object
	globals ugo.Map
}

func obsKey(o run.Obs) string {
	return o.Key() + fmt.Sprint(o.Trace) + fmt.Sprint(o.TraceFiles)
}

func one(c *fw.Ctx, key string, p prog) {
	if c.Skip(key) {
		return
	}
	opt := run.Options{ModuleMap: p.mm, Globals: p.globals}
	bc, err, pan := run.Compile(p.src, opt)
	if pan != "" || err != nil {
		c.Count("not_compilable", 1)
		return
	}
	nt := bc.NumModules > 0 || len(bc.Main.SourceMap) > 4
	for _, k := range bc.Constants {
		if _, ok := k.(*ugo.CompiledFunction); ok {
			nt = true
		}
	}
	if nt {
		c.Nontrivial()
	}
	c.Sample(p.src)
	before := bcv.Fingerprint(bc)
	d1, err := roundTrip(bc, p.mm)
	if err != nil {
		c.Violation(key, "encode/decode of a compiled script fails: "+err.Error(), map[string]any{"program": p.src})
		return
	}
	if after := bcv.Fingerprint(bc); after != before {
		c.Violation(key, "encoding modified the original Bytecode", map[string]any{"program": p.src})
		return
	}
	if prob := bcv.Verify(d1); prob != "" {
		c.Violation(key, "decoded bytecode is not well formed: "+prob, map[string]any{"program": p.src})
		return
	}
	d2, err := roundTrip(d1, p.mm)
	if err != nil {
		c.Violation(key, "second encode/decode fails: "+err.Error(), map[string]any{"program": p.src})
		return
	}
	inputs := p.inputs
	if inputs == nil {
		inputs = [][]ugo.Object{nil}
	}
	for _, in := range inputs {
		o := opt
		o.Args = in
		want := run.Bytecode(bc, o)
		if want.Hung {
			c.Infra("original program hangs: %s", p.src)
			return
		}
		for n, d := range []*ugo.Bytecode{d1, d2} {
			got := run.Bytecode(d, o)
			c.AddEval(1)
			if obsKey(got) != obsKey(want) {
				if obsKey(run.Bytecode(d, o)) == obsKey(run.Bytecode(bc, o)) { // a second pair of runs agrees
					c.Infra("unstable outcome for %s", p.src)
					return
				}
				c.Violation(key, fmt.Sprintf("after %d round trip(s) the program behaves differently: original %s trace=%v%v, decoded %s trace=%v%v (input %v)",
					n+1, want.String(), want.Trace, want.TraceFiles, got.String(), got.Trace, got.TraceFiles, in), map[string]any{"program": p.src})
				return
			}
		}
	}
}

func run4(c *fw.Ctx) {
	run.Timeout = 2 * time.Second
	maxCore := 2
	if c.Thorough() {
		maxCore = 3
	}
	c.Family("corpus:C03", fmt.Sprintf("cores <= %d", maxCore))
	c03.Corpus(maxCore, func(src string) {
		if c.Next() {
			one(c, src, prog{src: gen.Multiline(src)})
		}
	})
	c.Family("corpus:C02", "all families")
	c02.Corpus(c.Thorough(), func(src string) {
		if strings.Contains(src, "5000") {
			return
		}
		if c.Next() {
			one(c, src, prog{src: gen.Multiline(src)})
		}
	})
	c.Family("corpus:jump-grammar", "x 4 inputs")
	ins := [][]ugo.Object{{ugo.Int(0)}, {ugo.Int(1)}, {ugo.Int(2)}, {ugo.String("x")}}
	c11.JumpPrograms(c.Thorough(), func(src string) {
		if c.Next() {
			one(c, src, prog{src: gen.Multiline(src), inputs: ins})
		}
	})
	c.Family("constants", "one program per constant value, plus combinations")
	for _, p := range constantPrograms() {
		if c.Next() {
			one(c, p, prog{src: p})
		}
	}
	// programs at the capacity limits of the format: the largest counts the compiler accepts must survive the codec
	c.Family("capacity-boundaries", "functions / main / module with 1, 200, 255 and 256 locals or parameters; calls with 255 arguments; literals of 255..65535 elements; 255..300 constants")
	for _, p := range boundaryPrograms() {
		if c.Next() {
			one(c, "boundary: "+p.name, prog{src: p.src, mm: p.mm})
		}
	}
	c.Family("modules", "builtin module maps with every value type, real stdlib modules, source modules; decoded with the same map")
	for i, p := range modulePrograms() {
		if c.Next() {
			one(c, fmt.Sprintf("module-program-%d: %s", i, p.src), p)
		}
	}
	c.Family("modules-mismatch", "decode with a map lacking the module / with an item of another type: an error, never a panic")
	for i, m := range mismatchCases() {
		if !c.Next() {
			continue
		}
		key := fmt.Sprintf("mismatch-%d", i)
		if c.Skip(key) {
			continue
		}
		c.Nontrivial()
		bc, err := ugo.Compile([]byte(m.src), ugo.CompilerOptions{ModuleMap: m.compileWith})
		if err != nil {
			c.Infra("mismatch case %d does not compile: %v", i, err)
			continue
		}
		_, derr := roundTrip(bc, m.decodeWith)
		if derr == nil {
			c.Violation(key, "decoding with "+m.what+" succeeds silently", map[string]any{"program": m.src})
		} else if strings.Contains(derr.Error(), "panics") {
			c.Violation(key, "decoding with "+m.what+": "+derr.Error(), map[string]any{"program": m.src})
		}
	}
}

func constantPrograms() []string {
	lits := []string{"0", "1", "-1", "63", "64", "-64", "-65", "127", "128", "8191", "8192", "16383", "16384", "1048575", "1048576", "2147483647", "2147483648", "-2147483649",
		"4611686018427387903", "4611686018427387904", "9223372036854775807", "-9223372036854775807", "(-9223372036854775807 - 1)",
		"0u", "1u", "127u", "128u", "9223372036854775808u", "18446744073709551615u",
		"0.0", "-0.0", "1.5", "-1.5", "1e308", "5e-324", "2.2250738585072014e-308", "(1e308 * 10.0)", "(-1e308 * 10.0)", "((1e308 * 10.0) - (1e308 * 10.0))", "0.1", "3.141592653589793",
		"'a'", `'\x00'`, `'\U0010FFFF'`, "'é'", "('a' - 'b')", "char(-1)", "char(2147483647)",
		`""`, `"a"`, `"\xff"`, `"\x00"`, `"é😀"`, `"a\nb"`, "true", "false", "undefined",
	}
	var out []string
	for _, l := range lits {
		out = append(out, "x := "+l+"\nreturn [x, string(x), typeName(x), x == x]")
		out = append(out, "const x = "+l+"\nf := func() { return x }\nreturn [f(), typeName(f())]")
	}
	// strings at every length-prefix boundary
	for _, n := range []int{1, 62, 63, 64, 65, 126, 127, 128, 129, 255, 256, 8190, 8191, 8192, 8193, 16383, 16384, 16385, 70000} {
		out = append(out, fmt.Sprintf("s := %q\nreturn [len(s), s[0], s[len(s)-1]]", strings.Repeat("a", n-1)+"z"))
	}
	// pairs in one constant pool (sharing / ordering)
	pairs := [][2]string{{"0.0", "-0.0"}, {"-0.0", "0.0"}, {"0", "0u"}, {"0", "0.0"}, {"1", "true"}, {"'a'", "97"}, {`"a"`, "'a'"}, {"((1e308 * 10.0) - (1e308 * 10.0))", "((1e308 * 10.0) - (1e308 * 10.0))"}}
	for _, p := range pairs {
		out = append(out, "a := "+p[0]+"\nb := "+p[1]+"\nreturn [a, b, string(a), string(b), typeName(a), typeName(b)]")
	}
	// nested functions 3 deep, closures, variadic, 300 constants
	out = append(out, "f := func(a, ...b) {\n\treturn func(c) {\n\t\treturn func() {\n\t\t\treturn [a, b, c]\n\t\t}\n\t}\n}\nreturn f(1, 2, 3)(4)()")
	var sb strings.Builder
	sb.WriteString("x := 0\n")
	for i := 0; i < 300; i++ {
		fmt.Fprintf(&sb, "x += %d\n", 1000+i)
	}
	sb.WriteString("return x")
	out = append(out, sb.String())
	// identical function literals at different positions keep their own source positions
	out = append(out, "f := func() {\n\tthrow \"e\"\n}\n\ng := func() {\n\tthrow \"e\"\n}\nreturn g()")
	out = append(out, "f := func() {\n\tthrow \"e\"\n}\n\ng := func() {\n\tthrow \"e\"\n}\nreturn f()")
	// an error at the very first byte of the script
	out = append(out, "throw \"first\"")
	out = append(out, "undefined()")
	return out
}

func kindsModule() map[string]ugo.Object {
	one := ugo.Object(ugo.Int(1))
	fn := func(name string, ret ugo.Object) *ugo.Function {
		return &ugo.Function{Name: name, Value: func(args ...ugo.Object) (ugo.Object, error) { return ugo.Array{ret, ugo.Int(len(args))}, nil }}
	}
	return map[string]ugo.Object{
		"i": ugo.Int(-5), "imax": ugo.Int(9223372036854775807), "u": ugo.Uint(18446744073709551615), "f": ugo.Float(1.5), "nz": ugo.Float(negZero()), "c": ugo.Char('x'), "b": ugo.True, "s": ugo.String("str"), "es": ugo.String(""),
		"y": ugo.Bytes("by"), "ey": ugo.Bytes{}, "a": ugo.Array{ugo.Int(1), ugo.String("two"), ugo.Array{}}, "ea": ugo.Array{}, "m": ugo.Map{"k": ugo.Map{}, "": ugo.Int(2)}, "em": ugo.Map{},
		"sm": &ugo.SyncMap{Value: ugo.Map{"q": ugo.Int(1)}}, "und": ugo.Undefined, "": ugo.Int(0),
		"fn": fn("fn", ugo.String("fn")), "bf": ugo.BuiltinObjects[ugo.BuiltinLen],
		"fa": ugo.Array{fn("fa0", ugo.String("fa0")), ugo.Int(3)}, "fm": ugo.Map{"g": fn("fmg", ugo.String("fmg"))}, "fsm": &ugo.SyncMap{Value: ugo.Map{"h": fn("fsmh", ugo.String("fsmh"))}},
		"e1": &ugo.Error{Name: "E1", Message: "m1"}, "e2": &ugo.Error{Name: "E2", Message: "m2"}, "e3": ugo.ErrType, "p": &ugo.ObjectPtr{Value: &one},
		"t": &utime.Time{Value: time.Date(2020, 1, 2, 3, 4, 5, 6, time.UTC)},
	}
}

func negZero() float64 { z := 0.0; return -z }

func stdMap() *ugo.ModuleMap {
	mm := ugo.NewModuleMap()
	mm.AddBuiltinModule("kinds", kindsModule())
	mm.AddBuiltinModule("strings", ustrings.Module)
	mm.AddBuiltinModule("time", utime.Module)
	mm.AddBuiltinModule("json", ujson.Module)
	mm.AddBuiltinModule("fmt", ufmt.Module)
	mm.AddSourceModule("src", []byte("x := 1\nf := func() {\n\tthrow \"boom\"\n}\ninc := func() {\n\tx++\n\treturn x\n}\nreturn {f: f, inc: inc}\n"))
	mm.AddSourceModule("src2", []byte("s := import(\"src\")\nreturn {g: func() {\n\treturn s.f()\n}, inc: s.inc}\n"))
	return mm
}

func modulePrograms() []prog {
	mm := stdMap()
	srcs := []string{
		"k := import(\"kinds\")\nreturn [k.i, k.imax, k.u, k.f, string(k.nz), k.c, k.b, k.s, k.es, k.y, k.ey, k.a, k.ea, k.m, k.em, k.sm, k.und, k[\"\"]]",
		"k := import(\"kinds\")\nreturn [k.fn(1, 2), k.bf(\"abc\"), k.fa[0](), k.fa[1], k.fm.g(1), k.fsm.h()]",
		"k := import(\"kinds\")\nreturn [string(k.e1), string(k.e2), string(k.e3), k.e1.Name, k.e2.Message, typeName(k.p), typeName(k.t)]",
		"k := import(\"kinds\")\nk.i = 100\nk.a[0] = 50\nk2 := import(\"kinds\")\nreturn [k.i, k2.i, k.a[0]]",
		"s := import(\"strings\")\nreturn [s.ToUpper(\"abc\"), s.Repeat(\"ab\", 2), s.Map(func(c) { return c + 1 }, \"abc\"), s.Split(\"a,b\", \",\")]",
		"t := import(\"time\")\nd := t.Date(2020, 1, 2, 3, 4, 5, 6)\nreturn [d.Year(), string(t.Second), t.Format(d, \"2006-01-02\"), d.Add(t.Hour).Hour()]",
		"j := import(\"json\")\nreturn [string(j.Marshal({a: [1, \"x\"]})), j.Unmarshal(bytes(\"[1,2]\")), j.Valid(bytes(\"{\"))]",
		"f := import(\"fmt\")\nreturn f.Sprintf(\"%d-%s-%v\", 1, \"a\", [1])",
		"m := import(\"src\")\nreturn [m.inc(), m.inc(), import(\"src\").inc()]",
		"m := import(\"src\")\nreturn m.f()",
		"m := import(\"src2\")\n\nx := 1\nreturn m.g()",
		"m := import(\"src2\")\ns := import(\"src\")\nreturn [m.inc(), s.inc()]",
		"try {\n\timport(\"src\").f()\n} catch e {\n\tthrow e\n}",
		"f := func() {\n\treturn import(\"src2\").g()\n}\nreturn f()",
	}
	var out []prog
	for _, s := range srcs {
		out = append(out, prog{src: s, mm: mm})
	}
	return out
}

type mismatch struct {
	src         string
	what        string
	compileWith *ugo.ModuleMap
	decodeWith  *ugo.ModuleMap
}

func mismatchCases() []mismatch {
	src := "k := import(\"kinds\")\nreturn k.i"
	lacking := ugo.NewModuleMap()
	lacking.AddBuiltinModule("other", map[string]ugo.Object{"i": ugo.Int(1)})
	wrongType := ugo.NewModuleMap()
	wt := kindsModule()
	wt["i"] = ugo.String("not an int")
	wrongType.AddBuiltinModule("kinds", wt)
	missingItem := ugo.NewModuleMap()
	mi := kindsModule()
	delete(mi, "fn")
	missingItem.AddBuiltinModule("kinds", mi)
	asSource := ugo.NewModuleMap()
	asSource.AddSourceModule("kinds", []byte("return {}"))
	return []mismatch{
		{src, "a module map that lacks the module", stdMap(), lacking},
		{src, "a nil module map", stdMap(), nil},
		{src, "a module whose item has another Go type", stdMap(), wrongType},
		{src, "a module that lacks one item", stdMap(), missingItem},
		{src, "a source module of the same name", stdMap(), asSource},
	}
}

type boundaryProg struct {
	name, src string
	mm        *ugo.ModuleMap
}

func boundaryPrograms() []boundaryProg {
	names := func(prefix string, n int) []string {
		out := make([]string, n)
		for i := range out {
			out[i] = fmt.Sprintf("%s%d", prefix, i)
		}
		return out
	}
	var out []boundaryProg
	for _, n := range []int{1, 200, 255, 256} {
		vs := names("v", n)
		decl := ""
		for _, v := range vs {
			decl += v + " := 1; "
		}
		out = append(out, boundaryProg{name: fmt.Sprintf("func with %d locals", n), src: "f := func() { " + decl + "return " + vs[0] + " + " + vs[n-1] + " }; return f()"})
		out = append(out, boundaryProg{name: fmt.Sprintf("main with %d locals", n), src: decl + "return " + vs[0] + " + " + vs[n-1]})
		ps := strings.Join(names("p", n), ", ")
		out = append(out, boundaryProg{name: fmt.Sprintf("func with %d params", n), src: "f := func(" + ps + ") { return p0 }; g := func(...a) { return f(...a) }; return g(...repeat([7], " + fmt.Sprint(n) + "))"})
		out = append(out, boundaryProg{name: fmt.Sprintf("main with %d params", n), src: "param (" + ps + "); return [p0, p" + fmt.Sprint(n-1) + "]"})
		mm := ugo.NewModuleMap()
		mm.AddSourceModule("big", []byte(decl+"return "+vs[0]+" + "+vs[n-1]))
		out = append(out, boundaryProg{name: fmt.Sprintf("module with %d locals", n), src: "return import(\"big\")", mm: mm})
	}
	for _, n := range []int{254, 255} {
		out = append(out, boundaryProg{name: fmt.Sprintf("call with %d arguments", n), src: "f := func(...a) { return len(a) }; o := 1; return f(" + strings.TrimSuffix(strings.Repeat("o, ", n), ", ") + ")"})
	}
	for _, n := range []int{255, 256, 257, 2000} {
		out = append(out, boundaryProg{name: fmt.Sprintf("array literal of %d constants", n), src: "return [" + strings.Join(names("", n), ", ") + "]"})
		var kv []string
		for i := 0; i < n; i++ {
			kv = append(kv, fmt.Sprintf("k%d: \"s%d\"", i, i))
		}
		out = append(out, boundaryProg{name: fmt.Sprintf("map literal of %d string constants", n), src: "m := {" + strings.Join(kv, ", ") + "}; return [len(m), m.k0, m.k" + fmt.Sprint(n-1) + "]"})
	}
	return out
}
