// Package c15 decides C15: operator laws and documented numeric semantics, by
// evaluating every operator on the full cross product of a boundary-value pool
// through the direct Object API and through the VM (without panic recovery).
package c15

import (
	"fmt"
	"math"

	"github.com/ozanh/ugo"
	"github.com/ozanh/ugo/token"

	"verif/internal/fw"
	"verif/internal/uv"
)

func init() {
	fw.Register(&fw.Check{
		ID:    "C15",
		Level: "exploration",
		Rule: "full cross product of the value pool (all ordered pairs) x all binary operators and all values x unary operators, " +
			"each evaluated by Object.Equal/BinaryOp directly and by running `return a <op> b` on a VM without recovery; " +
			"a case is one (a, op, b) triple; non-trivial = the operands have different dynamic types",
		Run: run,
		Assumptions: []string{
			"reference results for int/uint/float/char/bool operands are computed in Go from the conversion rules of docs/operators.md",
			"values outside the pool are not covered",
		},
	})
}

var binToks = []token.Token{token.Add, token.Sub, token.Mul, token.Quo, token.Rem, token.And, token.Or,
	token.Xor, token.AndNot, token.Shl, token.Shr, token.Less, token.LessEq, token.Greater, token.GreaterEq,
	token.Equal, token.NotEqual}

var unToks = []token.Token{token.Add, token.Sub, token.Xor, token.Not}

var poolErr = &ugo.Error{Name: "error", Message: "x"}

// Pool returns the value pool; thorough adds more boundary values.
func Pool(thorough bool) []ugo.Object {
	nan := math.NaN()
	p := []ugo.Object{
		// ints: zero, units, shift-count boundaries, extremes
		ugo.Int(0), ugo.Int(1), ugo.Int(-1), ugo.Int(2), ugo.Int(63), ugo.Int(64), ugo.Int(-64),
		ugo.Int(math.MaxInt64), ugo.Int(math.MinInt64), ugo.Int(1 << 53), ugo.Int(1<<53 + 1), ugo.Int(97),
		// uints
		ugo.Uint(0), ugo.Uint(1), ugo.Uint(2), ugo.Uint(64), ugo.Uint(1 << 63), ugo.Uint(math.MaxUint64), ugo.Uint(97),
		// floats
		ugo.Float(0), ugo.Float(math.Copysign(0, -1)), ugo.Float(1), ugo.Float(-1), ugo.Float(0.5), ugo.Float(1 << 53),
		ugo.Float(math.Inf(1)), ugo.Float(math.Inf(-1)), ugo.Float(nan), ugo.Float(97), ugo.Float(18446744073709551616.0),
		// chars (rune is int32: negative and maximal values included)
		ugo.Char(0), ugo.Char(1), ugo.Char('a'), ugo.Char(0x10FFFF), ugo.Char(-1), ugo.Char(math.MaxInt32), ugo.Char(math.MinInt32), ugo.Char(31), ugo.Char(32),
		ugo.True, ugo.False,
		ugo.String(""), ugo.String("a"), ugo.String("b"), ugo.String("\xff"), ugo.String("1"),
		// an error value and the same error as the VM hands it to a catch block
		poolErr, &ugo.RuntimeError{Err: poolErr}, &ugo.Error{Name: "error", Message: "x"},
		ugo.Bytes{}, ugo.Bytes("a"), ugo.Bytes("b"),
		ugo.Array{}, ugo.Array{ugo.Int(1)}, ugo.Array{ugo.Float(1)}, ugo.Array{ugo.True}, ugo.Array{ugo.Char(1)}, ugo.Array{ugo.Uint(1)},
		ugo.Array{ugo.Array{ugo.Int(1)}, ugo.Map{"k": ugo.Float(1)}}, ugo.Array{ugo.Array{ugo.True}, ugo.Map{"k": ugo.Char(1)}},
		ugo.Map{}, ugo.Map{"k": ugo.Int(1)}, ugo.Map{"k": ugo.Float(1)}, ugo.Map{"k": ugo.True}, ugo.Map{"k": ugo.Char(1)},
		ugo.Map{"k": ugo.Array{ugo.Int(0)}}, ugo.Map{"k": ugo.Array{ugo.False}},
		// equally many keys, different key sets, undefined as the value of the key only one side has
		ugo.Map{"k": ugo.Undefined}, ugo.Map{"j": ugo.Int(1)}, ugo.Map{"j": ugo.Undefined}, &ugo.SyncMap{Value: ugo.Map{"j": ugo.Undefined}}, ugo.Array{ugo.Map{"k": ugo.Undefined}},
		ugo.Undefined,
		&ugo.Error{Name: "E", Message: "m"},
		&ugo.Function{Name: "f", Value: func(...ugo.Object) (ugo.Object, error) { return ugo.Undefined, nil }},
		&ugo.SyncMap{Value: ugo.Map{"k": ugo.Int(1)}},
	}
	if thorough {
		p = append(p,
			ugo.Int(3), ugo.Int(-2), ugo.Int(62), ugo.Int(65), ugo.Int(math.MaxInt32), ugo.Int(math.MinInt32), ugo.Int(1<<32), ugo.Int(-97),
			ugo.Int(math.MaxInt64-1), ugo.Int(math.MinInt64+1), ugo.Int(7),
			ugo.Uint(3), ugo.Uint(63), ugo.Uint(65), ugo.Uint(1<<63-1), ugo.Uint(1<<32), ugo.Uint(math.MaxUint64-1), ugo.Uint(1<<53+1),
			ugo.Float(-0.5), ugo.Float(1.5), ugo.Float(2), ugo.Float(1e308), ugo.Float(-1e308), ugo.Float(5e-324), ugo.Float(9223372036854775808.0), ugo.Float(-9223372036854775808.0), ugo.Float(63), ugo.Float(64),
			ugo.Char(2), ugo.Char(63), ugo.Char(64), ugo.Char('b'), ugo.Char(-2), ugo.Char(0xD800), ugo.Char(33),
			ugo.String("ab"), ugo.String("a\x00"), ugo.String("97"), ugo.Bytes("ab"), ugo.Bytes("\xff"),
			ugo.Array{ugo.Int(1), ugo.Int(2)}, ugo.Array{ugo.Undefined}, ugo.Array{ugo.String("a")}, ugo.Array{ugo.Bytes("a")},
			ugo.Map{"k": ugo.String("a")}, ugo.Map{"k": ugo.Bytes("a")}, ugo.Array{ugo.Map{"j": ugo.Int(1)}},
		)
	}
	return p
}

type kind int

const (
	kNone kind = iota
	kI
	kU
	kF
	kC
	kB
)

func kindOf(o ugo.Object) kind {
	switch o.(type) {
	case ugo.Int:
		return kI
	case ugo.Uint:
		return kU
	case ugo.Float:
		return kF
	case ugo.Char:
		return kC
	case ugo.Bool:
		return kB
	}
	return kNone
}

func b2i(o ugo.Object) int64 {
	if o.(ugo.Bool) {
		return 1
	}
	return 0
}

func asF(o ugo.Object) float64 {
	switch v := o.(type) {
	case ugo.Int:
		return float64(v)
	case ugo.Uint:
		return float64(v)
	case ugo.Float:
		return float64(v)
	}
	panic("asF")
}

func asU(o ugo.Object) uint64 {
	switch v := o.(type) {
	case ugo.Int:
		return uint64(v)
	case ugo.Uint:
		return uint64(v)
	}
	panic("asU")
}

func asC(o ugo.Object) int32 {
	switch v := o.(type) {
	case ugo.Int:
		return int32(v)
	case ugo.Uint:
		return int32(v)
	case ugo.Char:
		return int32(v)
	}
	panic("asC")
}

const (
	eType = "TypeError"
	eZero = "ZeroDivisionError"
)

// refArith is the reference for + - * / % & | ^ &^ << >> on numeric/bool
// operands, written from docs/operators.md. It returns either a value or the
// name of the documented error.
func refArith(tok token.Token, a, b ugo.Object) (ugo.Object, string) {
	ka, kb := kindOf(a), kindOf(b)
	// bool values are treated as untyped 1 or 0
	switch {
	case ka == kB && kb == kB:
		a, b, ka, kb = ugo.Int(b2i(a)), ugo.Int(b2i(b)), kI, kI
	case ka == kB:
		a, ka = untyped(b2i(a), kb), kb
	case kb == kB:
		b, kb = untyped(b2i(b), ka), ka
	}
	if ka == kF || kb == kF {
		if ka == kC || kb == kC {
			return nil, eType
		}
		x, y := asF(a), asF(b)
		switch tok {
		case token.Add:
			return ugo.Float(x + y), ""
		case token.Sub:
			return ugo.Float(x - y), ""
		case token.Mul:
			return ugo.Float(x * y), ""
		case token.Quo:
			if y == 0 {
				return nil, eZero
			}
			return ugo.Float(x / y), ""
		}
		return nil, eType
	}
	if ka == kC || kb == kC {
		if !(ka == kC && kb == kC) && tok != token.Add && tok != token.Sub {
			return nil, eType
		}
		x, y := asC(a), asC(b)
		switch tok {
		case token.Add:
			return ugo.Char(x + y), ""
		case token.Sub:
			return ugo.Char(x - y), ""
		case token.Mul:
			return ugo.Char(x * y), ""
		case token.Quo:
			if y == 0 {
				return nil, eZero
			}
			return ugo.Char(x / y), ""
		case token.Rem:
			if y == 0 {
				return nil, eZero
			}
			return ugo.Char(x % y), ""
		case token.And:
			return ugo.Char(x & y), ""
		case token.Or:
			return ugo.Char(x | y), ""
		case token.Xor:
			return ugo.Char(x ^ y), ""
		case token.AndNot:
			return ugo.Char(x &^ y), ""
		case token.Shl:
			if y < 0 {
				return nil, "undefined"
			}
			return ugo.Char(x << y), ""
		case token.Shr:
			if y < 0 {
				return nil, "undefined"
			}
			return ugo.Char(x >> y), ""
		}
		return nil, eType
	}
	if ka == kU || kb == kU {
		x, y := asU(a), asU(b)
		switch tok {
		case token.Add:
			return ugo.Uint(x + y), ""
		case token.Sub:
			return ugo.Uint(x - y), ""
		case token.Mul:
			return ugo.Uint(x * y), ""
		case token.Quo:
			if y == 0 {
				return nil, eZero
			}
			return ugo.Uint(x / y), ""
		case token.Rem:
			if y == 0 {
				return nil, eZero
			}
			return ugo.Uint(x % y), ""
		case token.And:
			return ugo.Uint(x & y), ""
		case token.Or:
			return ugo.Uint(x | y), ""
		case token.Xor:
			return ugo.Uint(x ^ y), ""
		case token.AndNot:
			return ugo.Uint(x &^ y), ""
		case token.Shl:
			return ugo.Uint(x << y), ""
		case token.Shr:
			return ugo.Uint(x >> y), ""
		}
		return nil, eType
	}
	x, y := int64(a.(ugo.Int)), int64(b.(ugo.Int))
	switch tok {
	case token.Add:
		return ugo.Int(x + y), ""
	case token.Sub:
		return ugo.Int(x - y), ""
	case token.Mul:
		return ugo.Int(x * y), ""
	case token.Quo:
		if y == 0 {
			return nil, eZero
		}
		return ugo.Int(x / y), ""
	case token.Rem:
		if y == 0 {
			return nil, eZero
		}
		return ugo.Int(x % y), ""
	case token.And:
		return ugo.Int(x & y), ""
	case token.Or:
		return ugo.Int(x | y), ""
	case token.Xor:
		return ugo.Int(x ^ y), ""
	case token.AndNot:
		return ugo.Int(x &^ y), ""
	case token.Shl:
		if y < 0 {
			return nil, "undefined"
		}
		return ugo.Int(x << uint64(y)), ""
	case token.Shr:
		if y < 0 {
			return nil, "undefined"
		}
		return ugo.Int(x >> uint64(y)), ""
	}
	return nil, eType
}

func untyped(v int64, k kind) ugo.Object {
	switch k {
	case kI:
		return ugo.Int(v)
	case kU:
		return ugo.Uint(v)
	case kF:
		return ugo.Float(v)
	case kC:
		return ugo.Char(v)
	}
	panic("untyped")
}

func isArith(tok token.Token) bool {
	switch tok {
	case token.Less, token.LessEq, token.Greater, token.GreaterEq, token.Equal, token.NotEqual:
		return false
	}
	return true
}

type res struct {
	v     ugo.Object
	err   error
	panic any
}

func (r res) String() string {
	if r.panic != nil {
		return fmt.Sprintf("PANIC %v", r.panic)
	}
	return uv.Outcome(r.v, r.err)
}

// class is the comparison class: value repr, or error name, or panic.
func (r res) class() string {
	if r.panic != nil {
		return "PANIC"
	}
	if r.err != nil {
		return "ERR " + uv.ErrName(r.err)
	}
	return "OK " + uv.Repr(r.v)
}

type runner struct {
	bc  map[token.Token]*ugo.Bytecode
	ubc map[token.Token]*ugo.Bytecode
}

func newRunner() (*runner, error) {
	r := &runner{bc: map[token.Token]*ugo.Bytecode{}, ubc: map[token.Token]*ugo.Bytecode{}}
	for _, t := range binToks {
		bc, err := ugo.Compile([]byte("param (a, b); return a "+t.String()+" b"), ugo.CompilerOptions{})
		if err != nil {
			return nil, err
		}
		r.bc[t] = bc
	}
	for _, t := range unToks {
		bc, err := ugo.Compile([]byte("param a; return "+t.String()+"a"), ugo.CompilerOptions{})
		if err != nil {
			return nil, err
		}
		r.ubc[t] = bc
	}
	return r, nil
}

func (r *runner) vm(tok token.Token, a, b ugo.Object) res {
	v, err, p := uv.Protect(func() (ugo.Object, error) { return ugo.NewVM(r.bc[tok]).Run(nil, a, b) })
	return res{v, err, p}
}

func (r *runner) vmUnary(tok token.Token, a ugo.Object) res {
	v, err, p := uv.Protect(func() (ugo.Object, error) { return ugo.NewVM(r.ubc[tok]).Run(nil, a) })
	return res{v, err, p}
}

func direct(tok token.Token, a, b ugo.Object) res {
	v, err, p := uv.Protect(func() (ugo.Object, error) {
		switch tok {
		case token.Equal:
			return ugo.Bool(a.Equal(b)), nil
		case token.NotEqual:
			return ugo.Bool(!a.Equal(b)), nil
		}
		v, err := a.BinaryOp(tok, b)
		if err == ugo.ErrInvalidOperator {
			err = ugo.ErrInvalidOperator.NewError(tok.String())
		}
		return v, err
	})
	return res{v, err, p}
}

func isNaN(o ugo.Object) bool {
	f, ok := o.(ugo.Float)
	return ok && math.IsNaN(float64(f))
}

func truth(r res) (bool, bool) {
	if r.panic != nil || r.err != nil {
		return false, false
	}
	b, ok := r.v.(ugo.Bool)
	return bool(b), ok
}

func key(route string, a ugo.Object, tok token.Token, b ugo.Object, what string) string {
	return fmt.Sprintf("%s|%s|%s|%s|%s", route, uv.Repr(a), tok.String(), reprOrNone(b), what)
}

func reprOrNone(b ugo.Object) string {
	if b == nil {
		return "-"
	}
	return uv.Repr(b)
}

func run(c *fw.Ctx) {
	r, err := newRunner()
	if err != nil {
		c.Infra("compile operator scripts: %v", err)
		return
	}
	n := len(Pool(c.Thorough()))
	c.Family("binary", fmt.Sprintf("pool=%d values, %d operators", n, len(binToks)))
	for i := 0; i < n; i++ {
		for j := 0; j < n; j++ {
			if !c.Next() {
				continue
			}
			// fresh operands for every pair: operators must not be able to alias pool storage
			a, b := Pool(c.Thorough())[i], Pool(c.Thorough())[j]
			pair(c, r, a, b)
		}
	}
	c.Family("unary", fmt.Sprintf("pool=%d values, %d operators", n, len(unToks)))
	for i := 0; i < n; i++ {
		if !c.Next() {
			continue
		}
		a := Pool(c.Thorough())[i]
		unary(c, r, a)
	}
}

func pair(c *fw.Ctx, r *runner, a, b ugo.Object) {
	ka, kb := kindOf(a), kindOf(b)
	cross := fmt.Sprintf("%T", a) != fmt.Sprintf("%T", b)
	out := map[token.Token]res{}
	for _, tok := range binToks {
		c.AddEval(1)
		if cross {
			c.Nontrivial()
		}
		d := direct(tok, a, b)
		v := r.vm(tok, a, b)
		out[tok] = d
		if cross {
			c.Sample(fmt.Sprintf("%s %s %s => %s", uv.Repr(a), tok, uv.Repr(b), d))
		}
		if d.panic != nil {
			c.Violation(key("direct", a, tok, b, "panic"), fmt.Sprintf("%s %s %s panics when evaluated through the Object API: %v", uv.Repr(a), tok, uv.Repr(b), d.panic), nil)
		}
		if v.panic != nil {
			c.Violation(key("vm", a, tok, b, "panic"), fmt.Sprintf("%s %s %s panics the VM (recovery off): %v", uv.Repr(a), tok, uv.Repr(b), v.panic), nil)
		}
		if d.panic == nil && v.panic == nil && d.class() != v.class() {
			c.Violation(key("routes", a, tok, b, "differ"), fmt.Sprintf("%s %s %s: Object API gives %s, VM gives %s", uv.Repr(a), tok, uv.Repr(b), d, v), nil)
		}
		for _, x := range []res{d, v} {
			if x.panic == nil && x.err != nil && uv.ErrName(x.err) == "" {
				c.Violation(key("errtype", a, tok, b, "nonugo"), fmt.Sprintf("%s %s %s returns a non-uGO error %v", uv.Repr(a), tok, uv.Repr(b), x.err), nil)
				break
			}
		}
		// concatenation with a string is associative over the empty string: a + s == ("" + a) + s and s + b == s + ("" + b)
		// (however a value is turned into text, it is the same text on either side of a string)
		if tok == token.Add && d.panic == nil && d.err == nil {
			_, as := a.(ugo.String)
			_, bs := b.(ugo.String)
			if _, text := d.v.(ugo.String); as != bs && text {
				var alt res
				if bs {
					pre := direct(token.Add, ugo.String(""), a)
					if pre.err == nil && pre.panic == nil {
						alt = direct(token.Add, pre.v, b)
					} else {
						alt = pre
					}
				} else {
					post := direct(token.Add, ugo.String(""), b)
					if post.err == nil && post.panic == nil {
						alt = direct(token.Add, a, post.v)
					} else {
						alt = post
					}
				}
				if alt.panic == nil && alt.err == nil && !uv.Same(alt.v, d.v) {
					c.Violation(key("law", a, tok, b, "concat"), fmt.Sprintf("%s + %s = %s, but with the non-string operand first added to the empty string it is %s", uv.Repr(a), uv.Repr(b), d, alt), nil)
				}
			}
		}
		// results are values: extending a result twice gives two independent results (no shared backing store)
		if tok == token.Add && d.panic == nil && d.err == nil {
			switch d.v.(type) {
			case ugo.Bytes, ugo.Array:
				x1 := direct(token.Add, d.v, b)
				if x1.panic == nil && x1.err == nil {
					before := uv.Repr(x1.v)
					self := uv.Repr(d.v)
					x2 := direct(token.Add, d.v, a)
					_ = x2
					x3 := direct(token.Add, d.v, d.v)
					_ = x3
					if after := uv.Repr(x1.v); after != before {
						c.Violation(key("law", a, tok, b, "alias"), fmt.Sprintf("r := %s + %s; x := r + %s is %s, but after also evaluating r + %s it is %s", uv.Repr(a), uv.Repr(b), uv.Repr(b), before, uv.Repr(a), after), nil)
					} else if now := uv.Repr(d.v); now != self {
						c.Violation(key("law", a, tok, b, "alias"), fmt.Sprintf("r := %s + %s is %s, after evaluating r + x it is %s", uv.Repr(a), uv.Repr(b), self, now), nil)
					}
				}
			}
		}
		// documented arithmetic on numeric operands
		if ka != kNone && kb != kNone && isArith(tok) && d.panic == nil {
			want, werr := refArith(tok, a, b)
			switch {
			case werr == "undefined":
				// negative shift count: Go itself panics; must be TypeError or ZeroDivisionError
				if d.err == nil || (uv.ErrName(d.err) != eType && uv.ErrName(d.err) != eZero) {
					c.Violation(key("ref", a, tok, b, "undefined"), fmt.Sprintf("%s %s %s is undefined in Go (negative shift count) but evaluates to %s", uv.Repr(a), tok, uv.Repr(b), d), nil)
				}
			case werr != "":
				if d.err == nil || uv.ErrName(d.err) != werr {
					c.Violation(key("ref", a, tok, b, "error"), fmt.Sprintf("%s %s %s: documented result is %s, got %s", uv.Repr(a), tok, uv.Repr(b), werr, d), nil)
				}
			default:
				if d.err != nil || !uv.Same(d.v, want) {
					c.Violation(key("ref", a, tok, b, "value"), fmt.Sprintf("%s %s %s: documented conversion gives %s, got %s", uv.Repr(a), tok, uv.Repr(b), uv.Repr(want), d), nil)
				}
			}
		}
	}
	// laws
	eqAB, okEq := truth(out[token.Equal])
	neAB, okNe := truth(out[token.NotEqual])
	eqBA, okEqBA := truth(direct(token.Equal, b, a))
	if okEq && okEqBA && eqAB != eqBA {
		c.Violation(key("law", a, token.Equal, b, "symmetry"), fmt.Sprintf("(%s == %s) is %v but (%s == %s) is %v", uv.Repr(a), uv.Repr(b), eqAB, uv.Repr(b), uv.Repr(a), eqBA), nil)
	}
	if okEq && okNe && eqAB == neAB {
		c.Violation(key("law", a, token.NotEqual, b, "negation"), fmt.Sprintf("(%s != %s) is not the negation of ==", uv.Repr(a), uv.Repr(b)), nil)
	}
	lt, ok1 := truth(out[token.Less])
	le, ok2 := truth(out[token.LessEq])
	gt, ok3 := truth(out[token.Greater])
	ge, ok4 := truth(out[token.GreaterEq])
	if ok1 && ok2 && ok3 && ok4 && okEq && !isNaN(a) && !isNaN(b) {
		cnt := 0
		for _, x := range []bool{lt, eqAB, gt} {
			if x {
				cnt++
			}
		}
		if cnt != 1 {
			c.Violation(key("law", a, token.Less, b, "trichotomy"), fmt.Sprintf("for a=%s b=%s: a<b=%v a==b=%v a>b=%v (exactly one must hold)", uv.Repr(a), uv.Repr(b), lt, eqAB, gt), nil)
		}
		if le != (lt || eqAB) {
			c.Violation(key("law", a, token.LessEq, b, "le"), fmt.Sprintf("for a=%s b=%s: a<=b=%v but a<b=%v a==b=%v", uv.Repr(a), uv.Repr(b), le, lt, eqAB), nil)
		}
		if ge != (gt || eqAB) {
			c.Violation(key("law", a, token.GreaterEq, b, "ge"), fmt.Sprintf("for a=%s b=%s: a>=b=%v but a>b=%v a==b=%v", uv.Repr(a), uv.Repr(b), ge, gt, eqAB), nil)
		}
		if bgt, ok := truth(direct(token.Greater, b, a)); ok && bgt != lt {
			c.Violation(key("law", a, token.Less, b, "converse"), fmt.Sprintf("for a=%s b=%s: a<b=%v but b>a=%v", uv.Repr(a), uv.Repr(b), lt, bgt), nil)
		}
	}
}

func unary(c *fw.Ctx, r *runner, a ugo.Object) {
	k := kindOf(a)
	for _, tok := range unToks {
		c.AddEval(1)
		c.Nontrivial()
		v := r.vmUnary(tok, a)
		c.Sample(fmt.Sprintf("%s%s => %s", tok, uv.Repr(a), v))
		if v.panic != nil {
			c.Violation(key("vm", a, tok, nil, "panic"), fmt.Sprintf("unary %s%s panics the VM: %v", tok, uv.Repr(a), v.panic), nil)
			continue
		}
		if v.err != nil && uv.ErrName(v.err) == "" {
			c.Violation(key("errtype", a, tok, nil, "nonugo"), fmt.Sprintf("unary %s%s returns a non-uGO error %v", tok, uv.Repr(a), v.err), nil)
			continue
		}
		if tok == token.Not {
			if b, ok := truth(v); !ok || b != a.IsFalsy() {
				c.Violation(key("ref", a, tok, nil, "value"), fmt.Sprintf("!%s gives %s", uv.Repr(a), v), nil)
			}
			continue
		}
		if k == kNone {
			if v.err == nil || uv.ErrName(v.err) != eType {
				c.Violation(key("ref", a, tok, nil, "error"), fmt.Sprintf("unary %s on %s must raise TypeError, got %s", tok, uv.Repr(a), v), nil)
			}
			continue
		}
		// documented: +x = 0 + x, -x = 0 - x, ^x = m ^ x; bool converted to int; float has no ^
		var want ugo.Object
		var werr string
		x := a
		if k == kB {
			x = ugo.Int(b2i(a))
		}
		switch tok {
		case token.Add:
			want = x
		case token.Sub:
			switch xv := x.(type) {
			case ugo.Int:
				want = -xv
			case ugo.Uint:
				want = -xv
			case ugo.Float:
				want = -xv
			case ugo.Char:
				want = ugo.Int(-xv) // numeric value; type is compared leniently below
			}
		case token.Xor:
			switch xv := x.(type) {
			case ugo.Int:
				want = ^xv
			case ugo.Uint:
				want = ^xv
			case ugo.Char:
				want = ugo.Int(^xv)
			case ugo.Float:
				werr = eType
			}
		}
		if werr != "" {
			if v.err == nil || uv.ErrName(v.err) != werr {
				c.Violation(key("ref", a, tok, nil, "error"), fmt.Sprintf("unary %s%s must raise %s, got %s", tok, uv.Repr(a), werr, v), nil)
			}
			continue
		}
		if v.err != nil || !sameNumeric(v.v, want) {
			c.Violation(key("ref", a, tok, nil, "value"), fmt.Sprintf("unary %s%s: documented result %s, got %s", tok, uv.Repr(a), uv.Repr(want), v), nil)
		}
	}
}

// sameNumeric compares numeric value, allowing char results to be int or char.
func sameNumeric(got, want ugo.Object) bool {
	if uv.Same(got, want) {
		return true
	}
	if g, ok := got.(ugo.Char); ok {
		if w, ok := want.(ugo.Int); ok {
			return int64(g) == int64(w)
		}
	}
	return false
}
