package c03

import (
	"fmt"
	"strings"

	"verif/internal/fw"
	"verif/internal/run"
)

// Family "finally-jump-repetition": a finally block that jumps (break, continue) overrides what was pending for its try
// statement - a return value, an error, another jump. The override must leave nothing behind: the same statement
// executed N = 2500 times in one activation (more often than the value stack has slots) still behaves as it does
// the first time. The expected results are closed formulas in N.
var repForms = []struct{ name, src, want string }{
	{"return overridden by continue", `f := func() { m := 0; for i := 0; i < N; i++ { try { return i } finally { m++; continue } }; return ["done", m] }; return f()`, `["done", N]`},
	{"return overridden by continue, catch clause present", `f := func() { m := 0; for i := 0; i < N; i++ { try { return [i, i] } catch e { m = -1 } finally { m++; continue } }; return ["done", m] }; return f()`, `["done", N]`},
	{"return overridden by continue except in the last iteration", `m := 0; f := func() { for i := 0; i < N; i++ { try { return i } finally { m++; if i < N - 1 { continue } } }; return "done" }; return [f(), m]`, `[N-1, N]`},
	{"return overridden by break of an inner loop", `f := func() { m := 0; for j := 0; j < N; j++ { for { try { return j } finally { m++; break } } }; return ["done", m] }; return f()`, `["done", N]`},
	{"return overridden by continue in a for-in loop", `f := func() { m := 0; for x in repeat([7], N) { try { return x } finally { m++; continue } }; return ["done", m] }; return f()`, `["done", N]`},
	{"return overridden in the inner of two try statements", `f := func() { m := 0; for i := 0; i < N; i++ { try { try { return i } finally { m++; continue } } finally { m++ } }; return ["done", m] }; return f()`, `["done", 2N]`},
	{"return in the main function overridden by continue", `m := 0; for i := 0; i < N; i++ { try { return i } finally { m++; continue } }; return ["done", m]`, `["done", N]`},
	{"error overridden by continue", `f := func() { m := 0; for i := 0; i < N; i++ { try { throw "x" } finally { m++; continue } }; return ["done", m] }; return f()`, `["done", N]`},
	{"break overridden by continue", `f := func() { m := 0; for i := 0; i < N; i++ { try { break } finally { m++; continue } }; return ["done", m] }; return f()`, `["done", N]`},
	{"return from a catch block overridden by continue", `f := func() { m := 0; for i := 0; i < N; i++ { try { throw "x" } catch e { return i } finally { m++; continue } }; return ["done", m] }; return f()`, `["done", N]`},
	{"return value of a call overridden by continue", `g := func(a, b) { return a + b }; f := func() { m := 0; for i := 0; i < N; i++ { try { return g(i, i) } finally { m++; continue } }; return ["done", m] }; return f()`, `["done", N]`},
	// the jumping finally belongs to a try statement inside a loop inside the finally block of ANOTHER try statement whose
	// own outcome is pending: that outcome is not the jump's to drop
	{"pending return of an enclosing try survives jumps of inner finally blocks", `f := func() { m := 0; try { return ["outer", N] } finally { for i := 0; i < N; i++ { try { m++ } finally { continue } } } }; return f()`, `["outer", N]`},
	{"pending return survives an inner return overridden by continue", `f := func() { try { return ["outer", N] } finally { for i := 0; i < N; i++ { try { return "inner" } finally { continue } } } }; return f()`, `["outer", N]`},
	{"pending error of an enclosing try survives jumps of inner finally blocks", `f := func() { m := 0; try { try { throw "boom" } finally { for i := 0; i < N; i++ { try { m++ } finally { break } } } } catch e { return ["done", m * N] } }; return f()`, `["done", N]`},
	{"nothing overridden (control)", `f := func() { m := 0; for i := 0; i < N; i++ { try { m++ } finally { m++ } }; return ["done", m] }; return f()`, `["done", 2N]`},
}

func runRepetition(c *fw.Ctx) {
	const n = 2500
	c.Family("finally-jump-repetition", fmt.Sprintf("%d loop bodies whose finally block overrides a pending outcome, executed N = 3 and N = %d times in one activation x optimizer on/off", len(repForms), n))
	for _, f := range repForms {
		for _, N := range []int{3, n} {
			if !c.Next() {
				continue
			}
			key := fmt.Sprintf("finally-jump-repetition %q N=%d", f.name, N)
			if c.Skip(key) {
				continue
			}
			c.AddStates(1)
			c.Nontrivial()
			src := strings.ReplaceAll(f.src, "N", fmt.Sprint(N))
			want := strings.NewReplacer("2N", fmt.Sprint(2*N), "N-1", fmt.Sprint(N-1), "N", fmt.Sprint(N)).Replace(f.want)
			for _, noopt := range []bool{false, true} {
				o := run.Source(src, run.Options{NoOptimize: noopt})
				c.AddTraces(1)
				c.Sample(map[string]any{"program": src, "expected": want, "outcome": o.String()})
				if got := o.String(); got != "OK "+want+" log=[]" {
					c.Violation(key, fmt.Sprintf("expected OK %s, got %s", want, got), map[string]any{"program": src, "no_optimize": noopt})
					c.Outcome("disagree")
					break
				}
				c.Outcome("value")
			}
		}
	}
}
