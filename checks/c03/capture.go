package c03

import (
	"fmt"
	"strings"

	"verif/internal/fw"
	"verif/internal/run"
)

// Family "captured-variables": a closure captures the catch variable of a try statement (or a variable declared in
// its try/finally block, or in a loop body); the statement completes; later statements run - among them further try
// statements whose catch clauses bind their own variables, in slots the compiler re-uses. "try statements that
// already completed have no influence on later ones", and the error "is bound there as the catch variable": the
// variable the closure captured is that binding and nothing else assigns to it, so the closure returns after the
// later statements exactly what it returned right after its creation. A differential law: no expected value is
// written by hand.
var capForms = []string{
	`try { throw "a" + TAG } catch e { f = func() { return string(e) } }`,
	`try { throw "a" + TAG } catch e { x := e; f = func() { return string(x) } }`,
	`try { x := "y" + TAG; f = func() { return x } } finally { }`,
	`try { throw "a" } catch e { } finally { z := "fin" + TAG; f = func() { return z } }`,
	`try { throw "a" + TAG } catch e { try { throw "n" } catch e { }; f = func() { return string(e) } }`,
	`for i0 := 0; i0 < 1; i0++ { x := "x" + TAG; f = func() { return x } }`,
	`for k, v in ["it" + TAG] { f = func() { return v } }`,
	`try { thrower() } catch e { t := TAG; f = func() { return string(e) + t } }`,
}

var capLater = []string{
	`try { throw "b" } catch e2 { }`,
	`try { throw "b" } catch e { }`,
	`try { throw "b" } catch { }`,
	`try { } catch e2 { }`,
	`try { throw "b" } catch e2 { } finally { }`,
	`for j := 0; j < 2; j++ { try { throw "c" } catch e3 { } }`,
	`y1 := "q"; y2 := "r"`,
	`for j := 0; j < 1; j++ { w := "w" }`,
	`try { thrower() } catch e2 { }`,
	`try { try { throw "b" } finally { } } catch e2 { }`,
	`try { 1 / zero } catch e2 { }`,
	`a1, a2 := [1, 2]`,
	`try { throw "b" } catch e2 { e2 = "changed" }`,
	`try { throw "b" } catch e2 { g2 := func() { return e2 }; e2 = g2 }`,
	`try { throw "b" } finally { return [r1, f()] }`,
}

func capProgram(form, later string, inFunc, inLoop bool) string {
	pre := `zero := 0; thrower := func() { throw "thrown" }; `
	var body string
	if inLoop {
		body = `fs := []; rs := []; for i := 0; i < 2; i++ { var f; ` + strings.ReplaceAll(form, "TAG", "string(i)") + `; fs = append(fs, f); rs = append(rs, f()); ` + later + ` }; return [rs, [fs[0](), fs[1]()]]`
	} else {
		body = `var f; ` + strings.ReplaceAll(form, "TAG", `""`) + `; r1 := f(); ` + later + `; return [r1, f()]`
	}
	if inFunc {
		return pre + `return func() { ` + body + ` }()`
	}
	return pre + body
}

func runCaptured(c *fw.Ctx) {
	c.Family("captured-variables", fmt.Sprintf("%d capturing statements x %d later statements x {top level, function body} x {once, in a loop of 2 iterations} x optimizer on/off; the closure's value before and after", len(capForms), len(capLater)))
	for fi, form := range capForms {
		for li, later := range capLater {
			for place := 0; place < 4; place++ {
				if !c.Next() {
					continue
				}
				inFunc, inLoop := place&1 == 1, place&2 == 2
				if inLoop && strings.Contains(later, "return [r1") {
					continue
				}
				src := capProgram(form, later, inFunc, inLoop)
				key := fmt.Sprintf("captured form=%d later=%d func=%v loop=%v", fi, li, inFunc, inLoop)
				if c.Skip(key) {
					continue
				}
				c.AddStates(1)
				c.Nontrivial()
				for _, noopt := range []bool{false, true} {
					o := run.Source(src, run.Options{NoOptimize: noopt})
					c.AddTraces(1)
					c.Sample(map[string]any{"program": src, "outcome": o.String()})
					if o.CompileErr != "" || o.Panic != "" || o.Hung || o.ErrName != "" || o.ErrText != "" {
						c.Violation(key, "program of the captured-variables family does not run to a value: "+o.String(), map[string]any{"program": src, "no_optimize": noopt})
						c.Outcome("error")
						break
					}
					// Val is "[before, after]"
					v := strings.TrimSuffix(strings.TrimPrefix(o.Val, "["), "]")
					ok := false
					if len(v)%2 == 0 {
						h := len(v) / 2
						ok = v[:h-1] == v[h+1:] && v[h-1:h+1] == ", "
					}
					if !ok {
						c.Violation(key, fmt.Sprintf("a variable captured by a closure changed although nothing assigned to it: the closure returned %s (before, after the later statements)", o.Val),
							map[string]any{"program": src, "no_optimize": noopt, "implementation": o.String()})
						c.Outcome("changed")
						break
					}
					c.Outcome("unchanged")
				}
			}
		}
	}
}
