package c03

import (
	"fmt"
	"strings"

	"github.com/ozanh/ugo"
	ustrings "github.com/ozanh/ugo/stdlib/strings"

	"verif/internal/fw"
	"verif/internal/run"
)

// Family "stdlib-callbacks": the error is thrown inside a script function that a standard-library function calls back
// (strings.Map, the seven ...Func functions). The Go function between the throw and the handler is part of "a
// calling function": the error reaches the nearest enclosing catch of the caller, the call-back is not invoked again
// after it threw, finally runs once, and what a call-back that does not throw returns is used. Expected values are
// written as closed formulas of the number K of the invocation that throws.
var cbFuncs = []struct{ name, call, ret string }{
	{"Map", `strings.Map(cb, "abcd")`, "c"},
	{"FieldsFunc", `strings.FieldsFunc("abcd", cb)`, "false"},
	{"IndexFunc", `strings.IndexFunc("abcd", cb)`, "false"},
	{"LastIndexFunc", `strings.LastIndexFunc("abcd", cb)`, "false"},
	{"TrimFunc", `strings.TrimFunc("abcd", cb)`, "true"},
	{"TrimLeftFunc", `strings.TrimLeftFunc("abcd", cb)`, "true"},
	{"TrimRightFunc", `strings.TrimRightFunc("abcd", cb)`, "true"},
}

var cbFails = []struct{ name, stmt string }{
	{"throw", `throw "boom"`},
	{"runtime-error", `x := 1 / zero`},
	{"error-in-nested-call", `thrower()`},
	{"error-after-inner-try", `try { throw "inner" } catch ie { n += 100 }; throw "boom"`},
}

func runStdCallbacks(c *fw.Ctx) {
	c.Family("stdlib-callbacks", fmt.Sprintf("%d strings functions taking a call-back x %d ways to fail x failing invocation K = 1..3 x {catch, catch+finally, finally only inside an outer catch} x optimizer on/off", len(cbFuncs), len(cbFails)))
	mm := ugo.NewModuleMap().AddBuiltinModule("strings", ustrings.Module)
	for _, f := range cbFuncs {
		for _, fl := range cbFails {
			for k := 1; k <= 3; k++ {
				for shape := 0; shape < 3; shape++ {
					if !c.Next() {
						continue
					}
					key := fmt.Sprintf("stdlib-callbacks fn=%s fail=%s K=%d shape=%d", f.name, fl.name, k, shape)
					if c.Skip(key) {
						continue
					}
					c.AddStates(1)
					c.Nontrivial()
					pre := "strings := import(\"strings\"); zero := 0; thrower := func() { throw \"boom\" }; n := 0; log := []; " +
						fmt.Sprintf("cb := func(c) { n++; if n %% 100 == %d { %s }; return %s }; ", k, fl.stmt, f.ret)
					var body string
					switch shape {
					case 0:
						body = "try { r := " + f.call + "; log = append(log, \"not reached\") } catch e { log = append(log, \"caught\") }"
					case 1:
						body = "try { r := " + f.call + "; log = append(log, \"not reached\") } catch e { log = append(log, \"caught\") } finally { log = append(log, \"finally\") }"
					default:
						body = "try { try { r := " + f.call + "; log = append(log, \"not reached\") } finally { log = append(log, \"finally\") } } catch e { log = append(log, \"caught\") }"
					}
					src := pre + body + "; return [log, n % 100]"
					inner := 0
					_ = inner
					var want string
					switch shape {
					case 0:
						want = fmt.Sprintf(`[["caught"], %d]`, k)
					case 1:
						want = fmt.Sprintf(`[["caught", "finally"], %d]`, k)
					default:
						want = fmt.Sprintf(`[["finally", "caught"], %d]`, k)
					}
					for _, noopt := range []bool{false, true} {
						o := run.Source(src, run.Options{NoOptimize: noopt, ModuleMap: mm})
						c.AddTraces(1)
						c.Sample(map[string]any{"program": src, "expected": want, "outcome": o.String()})
						if got := o.String(); got != "OK "+want+" log=[]" {
							c.Violation(key, fmt.Sprintf("error thrown inside a call-back of strings.%s: expected OK %s, got %s", f.name, want, strings.TrimSpace(got)), map[string]any{"program": src, "no_optimize": noopt})
							c.Outcome("disagree")
							break
						}
						c.Outcome("value")
					}
				}
			}
		}
	}
}
