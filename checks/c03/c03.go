// Package c03 decides C03 (finally runs exactly once on every exit path, the
// pending outcome survives it, completed try statements have no influence on
// later ones) by enumerating Prefix x Context x Core programs and comparing the
// implementation with the reference completion semantics on every one.
package c03

import (
	"fmt"
	"strings"

	"verif/internal/cmpx"
	"verif/internal/fw"
	"verif/internal/gen"
	"verif/internal/ref"
	"verif/internal/run"
)

func init() {
	fw.Register(&fw.Check{
		ID:    "C03",
		Level: "model_checking",
		Rule: "programs = Prefix x Context x Core: Core ranges over every try/catch/finally/for statement with <= n nodes over the leaf alphabet " +
			"{probe, return, break, continue, throw, runtime error 1/zero, call of a throwing function, call of a function with its own try/finally, nested core}; " +
			"Context is one of 12 placements (loop, enclosing try bodies, inside catch/finally with an error pending, nested function with handler in the caller); " +
			"Prefix is a history of already completed try statements in the same activation. Every program is run by the reference interpreter " +
			"(ECMAScript-style completion records, DESIGN.md Appendix A) and by the VM with the optimizer on and off; " +
			"states = distinct programs, transitions = statements executed by the reference, traces = implementation runs compared; " +
			"non-trivial = a finally body is entered while a non-normal completion (return/break/continue/throw) is pending",
		Run: run3,
		Assumptions: []string{
			"reference interpreter internal/ref implements docs/error-handling.md + ECMAScript completion semantics",
			"stack overflow is outside the generated programs (documented exception)",
		},
	})
}

// ----- core enumeration ------------------------------------------------------

type leafKind int

const (
	lProbe leafKind = iota
	lReturn
	lThrow
	lDivZero
	lThrower
	lInner
	lBreak
	lContinue
)

// item is a statement with placeholders; numbering happens per program.
type gctx struct {
	memo map[[2]int][]gen.Stmt // (size, inLoop) -> statements
	seqs map[[2]int][][]gen.Stmt
}

func newG() *gctx { return &gctx{memo: map[[2]int][]gen.Stmt{}, seqs: map[[2]int][][]gen.Stmt{}} }

func b2i(b bool) int {
	if b {
		return 1
	}
	return 0
}

var placeholder = gen.IntLit{V: -7}

// runtimeError is the statement used for the "runtime error" leaf. Every instruction that can fail has its own error
// path in the VM (and its own way of advancing the instruction pointer), so the family "error-forms" repeats the small
// cores with each of errorForms in its place.
var runtimeError gen.Stmt = gen.ExprStmt{X: gen.Bin{Op: "/", L: gen.IntLit{V: 1}, R: gen.Name{N: "zero"}}}

var errorForms = []struct {
	name string
	stmt gen.Stmt
}{
	{"unary operator on a string", gen.ExprStmt{X: gen.Un{Op: "-", X: gen.Name{N: "str"}}}},
	{"index out of bounds", gen.ExprStmt{X: gen.Index{X: gen.Name{N: "arr1"}, I: gen.Name{N: "five"}}}},
	{"call of a non-callable", gen.ExprStmt{X: gen.Call{Fn: gen.Name{N: "zero"}}}},
	{"wrong number of arguments", gen.ExprStmt{X: gen.Call{Fn: gen.Name{N: "two"}, Args: []gen.Expr{gen.IntLit{V: 1}}}}},
	{"runtime error in an assignment", gen.Assign{T: []gen.Expr{gen.Name{N: "five"}}, Op: "=", X: gen.Bin{Op: "%", L: gen.Name{N: "five"}, R: gen.Name{N: "zero"}}}},
	{"runtime error in a condition", gen.If{Cond: gen.Bin{Op: "==", L: gen.Un{Op: "-", X: gen.Name{N: "str"}}, R: gen.IntLit{V: 1}}, Then: []gen.Stmt{gen.LS(650)}}},
}

func leaves(inLoop bool) []gen.Stmt {
	l := []gen.Stmt{
		gen.ExprStmt{X: gen.Call{Fn: gen.Name{N: "L"}, Args: []gen.Expr{placeholder}}},
		gen.Return{X: placeholder},
		gen.Return{}, // a return without a value is compiled by its own branch
		gen.Throw{X: gen.StrLit{V: "?"}},
		runtimeError,
		gen.ExprStmt{X: gen.Call{Fn: gen.Name{N: "thrower"}}},
		gen.ExprStmt{X: gen.Call{Fn: gen.Name{N: "inner"}}},
	}
	if inLoop {
		l = append(l, gen.Break{}, gen.Continue{})
	}
	return l
}

// stmts returns all statements with exactly n nodes.
func (g *gctx) stmts(n int, inLoop bool) []gen.Stmt {
	if n <= 0 {
		return nil
	}
	key := [2]int{n, b2i(inLoop)}
	if r, ok := g.memo[key]; ok {
		return r
	}
	var out []gen.Stmt
	if n == 1 {
		out = append(out, leaves(inLoop)...)
	}
	rest := n - 1
	// for loop
	for _, b := range g.bodies(rest, true) {
		out = append(out, gen.For{Init: gen.Define{Names: []string{"i"}, X: gen.IntLit{V: 0}},
			Cond: gen.Bin{Op: "<", L: gen.Name{N: "i"}, R: gen.IntLit{V: 2}}, Post: gen.IncDec{X: gen.Name{N: "i"}, Op: "++"}, Body: b})
	}
	// try forms
	for nb := 0; nb <= rest; nb++ {
		for _, b := range g.bodies(nb, inLoop) {
			// catch only / finally only
			for _, c := range g.bodies(rest-nb, inLoop) {
				out = append(out, gen.Try{Body: b, HasCatch: true, CatchName: "e", Catch: c})
				out = append(out, gen.Try{Body: b, HasFinally: true, Finally: c})
			}
			// catch + finally
			for nc := 0; nc <= rest-nb; nc++ {
				for _, c := range g.bodies(nc, inLoop) {
					for _, f := range g.bodies(rest-nb-nc, inLoop) {
						out = append(out, gen.Try{Body: b, HasCatch: true, CatchName: "e", Catch: c, HasFinally: true, Finally: f})
					}
				}
			}
		}
	}
	g.memo[key] = out
	return out
}

// bodies returns all statement sequences of at most 2 items with total size n.
func (g *gctx) bodies(n int, inLoop bool) [][]gen.Stmt {
	key := [2]int{n, b2i(inLoop)}
	if r, ok := g.seqs[key]; ok {
		return r
	}
	var out [][]gen.Stmt
	if n == 0 {
		out = [][]gen.Stmt{nil}
	} else {
		for _, s := range g.stmts(n, inLoop) {
			out = append(out, []gen.Stmt{s})
		}
		for a := 1; a < n; a++ {
			for _, s1 := range g.stmts(a, inLoop) {
				if isJump(s1) {
					continue // a statement after an unconditional jump is dead: same behaviour as the 1-item body
				}
				for _, s2 := range g.stmts(n-a, inLoop) {
					out = append(out, []gen.Stmt{s1, s2})
				}
			}
		}
	}
	g.seqs[key] = out
	return out
}

func isJump(s gen.Stmt) bool {
	switch s.(type) {
	case gen.Return, gen.Break, gen.Continue, gen.Throw:
		return true
	}
	return false
}

// ----- numbering -------------------------------------------------------------

type numb struct {
	k     int64
	depth int // loop nesting for variable names
	try   int
}

func (nb *numb) next() int64 { nb.k++; return nb.k }

func (nb *numb) list(in []gen.Stmt) []gen.Stmt {
	if in == nil {
		return nil
	}
	out := make([]gen.Stmt, len(in))
	for i, s := range in {
		out[i] = nb.stmt(s)
	}
	return out
}

func (nb *numb) stmt(s gen.Stmt) gen.Stmt {
	switch s := s.(type) {
	case gen.ExprStmt:
		if c, ok := s.X.(gen.Call); ok {
			if n, ok := c.Fn.(gen.Name); ok && n.N == "L" && len(c.Args) == 1 && c.Args[0] == gen.Expr(placeholder) {
				return gen.ExprStmt{X: gen.L(nb.next())}
			}
		}
		return s
	case gen.Return:
		if s.X == gen.Expr(placeholder) {
			return gen.Return{X: gen.IntLit{V: 100 + nb.next()}}
		}
		return s
	case gen.Throw:
		if sl, ok := s.X.(gen.StrLit); ok && sl.V == "?" {
			return gen.Throw{X: gen.StrLit{V: fmt.Sprintf("t%d", nb.next())}}
		}
		return s
	case gen.For:
		if d, ok := s.Init.(gen.Define); ok && d.Names[0] == "i" {
			v := fmt.Sprintf("i%d", nb.depth)
			nb.depth++
			body := nb.list(s.Body)
			nb.depth--
			return gen.For{Init: gen.Define{Names: []string{v}, X: gen.IntLit{V: 0}},
				Cond: gen.Bin{Op: "<", L: gen.Name{N: v}, R: gen.IntLit{V: 2}}, Post: gen.IncDec{X: gen.Name{N: v}, Op: "++"}, Body: body}
		}
		return gen.For{Init: s.Init, Cond: s.Cond, Post: s.Post, Body: nb.list(s.Body)}
	case gen.Try:
		t := gen.Try{HasCatch: s.HasCatch, HasFinally: s.HasFinally, CatchName: s.CatchName}
		if s.CatchName == "e" {
			t.CatchName = fmt.Sprintf("e%d", nb.try)
		}
		nb.try++
		t.Body = nb.list(s.Body)
		if s.HasCatch {
			// every generated catch block first reports the value bound to its variable
			if s.CatchName == "e" {
				t.Catch = append([]gen.Stmt{gen.ExprStmt{X: gen.L(nb.next(), gen.Name{N: t.CatchName})}}, nb.list(s.Catch)...)
			} else {
				t.Catch = nb.list(s.Catch)
			}
		}
		if s.HasFinally {
			t.Finally = nb.list(s.Finally)
		}
		return t
	case gen.Block:
		return gen.Block{Body: nb.list(s.Body)}
	case gen.If:
		return gen.If{Init: s.Init, Cond: s.Cond, Then: nb.list(s.Then), Else: nb.list(s.Else), HasElse: s.HasElse}
	}
	return s
}

// ----- contexts ---------------------------------------------------------------

type context struct {
	name   string
	inLoop bool
	// build places prefix and core; P(k) are fixed probes
	build func(prefix []gen.Stmt, core gen.Stmt) []gen.Stmt
}

func loop(v string, body ...gen.Stmt) gen.Stmt {
	return gen.For{Init: gen.Define{Names: []string{v}, X: gen.IntLit{V: 0}},
		Cond: gen.Bin{Op: "<", L: gen.Name{N: v}, R: gen.IntLit{V: 2}}, Post: gen.IncDec{X: gen.Name{N: v}, Op: "++"}, Body: body}
}

func callFn(body ...gen.Stmt) gen.Stmt {
	return gen.ExprStmt{X: gen.L(900, gen.Call{Fn: gen.Paren{X: gen.Func{Body: body}}})}
}

func cat(a []gen.Stmt, b ...gen.Stmt) []gen.Stmt {
	out := make([]gen.Stmt, 0, len(a)+len(b))
	out = append(out, a...)
	return append(out, b...)
}

var contexts = []context{
	{"plain", false, func(p []gen.Stmt, c gen.Stmt) []gen.Stmt { return cat(p, c) }},
	{"loop", true, func(p []gen.Stmt, c gen.Stmt) []gen.Stmt { return cat(p, loop("c", c, gen.LS(801))) }},
	{"tryfinally-body", false, func(p []gen.Stmt, c gen.Stmt) []gen.Stmt {
		return cat(p, gen.Try{Body: []gen.Stmt{c, gen.LS(801)}, HasFinally: true, Finally: []gen.Stmt{gen.LS(802)}})
	}},
	{"trycatch-body", false, func(p []gen.Stmt, c gen.Stmt) []gen.Stmt {
		return cat(p, gen.Try{Body: []gen.Stmt{c, gen.LS(801)}, HasCatch: true, CatchName: "x", Catch: []gen.Stmt{gen.ExprStmt{X: gen.L(803, gen.Name{N: "x"})}}})
	}},
	{"try-loop-body", true, func(p []gen.Stmt, c gen.Stmt) []gen.Stmt {
		return cat(p, gen.Try{Body: []gen.Stmt{loop("c", c), gen.LS(801)}, HasFinally: true, Finally: []gen.Stmt{gen.LS(802)}})
	}},
	{"loop-tryfinally", true, func(p []gen.Stmt, c gen.Stmt) []gen.Stmt {
		return cat(p, loop("c", gen.Try{Body: []gen.Stmt{c}, HasFinally: true, Finally: []gen.Stmt{gen.LS(802)}}))
	}},
	{"in-finally", false, func(p []gen.Stmt, c gen.Stmt) []gen.Stmt {
		return cat(p, gen.Try{Body: []gen.Stmt{gen.LS(801)}, HasFinally: true, Finally: []gen.Stmt{c}})
	}},
	{"in-catch", false, func(p []gen.Stmt, c gen.Stmt) []gen.Stmt {
		return cat(p, gen.Try{Body: []gen.Stmt{gen.Throw{X: gen.StrLit{V: "pending"}}}, HasCatch: true, Catch: []gen.Stmt{c}})
	}},
	{"in-finally-pending", false, func(p []gen.Stmt, c gen.Stmt) []gen.Stmt {
		return cat(p, gen.Try{Body: []gen.Stmt{gen.Throw{X: gen.StrLit{V: "pending"}}}, HasFinally: true, Finally: []gen.Stmt{c}})
	}},
	{"func", false, func(p []gen.Stmt, c gen.Stmt) []gen.Stmt { return []gen.Stmt{callFn(cat(p, c)...)} }},
	{"func-tryfinally", false, func(p []gen.Stmt, c gen.Stmt) []gen.Stmt {
		return []gen.Stmt{callFn(cat(p, gen.Try{Body: []gen.Stmt{c}, HasFinally: true, Finally: []gen.Stmt{gen.LS(802)}})...)}
	}},
	{"caller-catch", false, func(p []gen.Stmt, c gen.Stmt) []gen.Stmt {
		return []gen.Stmt{gen.Try{Body: []gen.Stmt{callFn(cat(p, c)...)}, HasCatch: true, CatchName: "x", Catch: []gen.Stmt{gen.ExprStmt{X: gen.L(803, gen.Name{N: "x"})}}}}
	}},
}

// prefixes: histories of completed try statements inside the same activation.
func prefixes(thorough bool) [][]gen.Stmt {
	one := [][]gen.Stmt{
		{gen.Try{Body: []gen.Stmt{gen.LS(701)}, HasFinally: true, Finally: []gen.Stmt{gen.LS(702)}}},
		{gen.Try{Body: []gen.Stmt{gen.Throw{X: gen.StrLit{V: "p"}}}, HasCatch: true, CatchName: "pe", Catch: []gen.Stmt{gen.LS(703)}}},
		{loop("p", gen.Try{Body: []gen.Stmt{gen.LS(704)}, HasFinally: true, Finally: []gen.Stmt{gen.Break{}}})},
		{loop("p", gen.Try{Body: []gen.Stmt{gen.Break{}}, HasFinally: true, Finally: []gen.Stmt{gen.LS(705)}})},
		{loop("p", gen.Try{Body: []gen.Stmt{gen.Return{X: gen.IntLit{V: 55}}}, HasFinally: true, Finally: []gen.Stmt{gen.Break{}}})},
	}
	out := [][]gen.Stmt{nil}
	out = append(out, one...)
	if thorough {
		// one pair per ordered combination of a "normal" history with a "jump" history and back
		out = append(out, cat(one[0], one[1]...), cat(one[1], one[2]...), cat(one[2], one[0]...), cat(one[3], one[4]...), cat(one[4], one[1]...))
		// a history whose error was left pending by a break out of finally
		out = append(out, []gen.Stmt{loop("p", gen.Try{Body: []gen.Stmt{gen.Throw{X: gen.StrLit{V: "stale"}}}, HasFinally: true, Finally: []gen.Stmt{gen.Break{}}})})
	}
	return out
}

var prelude = []gen.Stmt{
	gen.Global{Names: []string{"L"}},
	gen.Define{Names: []string{"zero"}, X: gen.IntLit{V: 0}},
	gen.Define{Names: []string{"str"}, X: gen.StrLit{V: "s"}},
	gen.Define{Names: []string{"five"}, X: gen.IntLit{V: 5}},
	gen.Define{Names: []string{"arr1"}, X: gen.Arr{E: []gen.Expr{gen.IntLit{V: 1}}}},
	gen.Define{Names: []string{"two"}, X: gen.Func{Params: []string{"a", "b"}, Body: []gen.Stmt{gen.Return{X: gen.Name{N: "a"}}}}},
	gen.Define{Names: []string{"thrower"}, X: gen.Func{Body: []gen.Stmt{gen.Throw{X: gen.StrLit{V: "thrown"}}}}},
	gen.Define{Names: []string{"inner"}, X: gen.Func{Body: []gen.Stmt{
		gen.Try{Body: []gen.Stmt{gen.Throw{X: gen.StrLit{V: "inner"}}}, HasFinally: true, Finally: []gen.Stmt{gen.LS(600)}}}}},
}

func program(ctx context, prefix []gen.Stmt, core gen.Stmt) []gen.Stmt {
	nb := &numb{}
	body := ctx.build(nb.list(prefix), nb.stmt(core))
	out := cat(prelude, body...)
	out = append(out, gen.LS(999), gen.Return{X: gen.IntLit{V: 1000}})
	return out
}

func run3(c *fw.Ctx) {
	maxCore := 3
	if c.Thorough() {
		maxCore = 4
	}
	g := newG()
	pfx := prefixes(c.Thorough())
	for ci, ctx := range contexts {
		c.Family("ctx:"+ctx.name, fmt.Sprintf("core<=%d nodes, %d prefixes", maxCore, len(pfx)))
		for n := 1; n <= maxCore; n++ {
			for _, core := range g.stmts(n, ctx.inLoop) {
				if _, isLeaf := core.(gen.ExprStmt); isLeaf && n == 1 {
					// a bare leaf has no try/loop of its own; it is still a legal core (exit kind inside the context)
				}
				for pi, p := range pfx {
					if !c.Next() {
						continue
					}
					_ = ci
					_ = pi
					one(c, program(ctx, p, core))
				}
			}
		}
	}
	// every failing instruction kind in the place of the runtime-error leaf, cores of <= 2 (thorough 3) nodes
	efCore := 2
	if c.Thorough() {
		efCore = 3
	}
	saved := runtimeError
	for _, ef := range errorForms {
		runtimeError = ef.stmt
		g2 := newG()
		c.Family("error-forms:"+ef.name, fmt.Sprintf("core<=%d nodes containing the failing statement x %d contexts x %d prefixes", efCore, len(contexts), len(pfx)))
		for _, ctx := range contexts {
			for n := 1; n <= efCore; n++ {
				for _, core := range g2.stmts(n, ctx.inLoop) {
					if !strings.Contains(gen.Source([]gen.Stmt{core}), gen.Source([]gen.Stmt{ef.stmt})) {
						continue
					}
					for _, p := range pfx {
						if !c.Next() {
							continue
						}
						one(c, program(ctx, p, core))
					}
				}
			}
		}
	}
	runtimeError = saved
	runFrameLimit(c)
	runCaptured(c)
	runRepetition(c)
	runStdCallbacks(c)
	if c.Thorough() {
		// flat space without context, one node deeper
		c.Family("flat", "core<=5 nodes, no context, no prefix")
		for _, core := range g.stmts(5, false) {
			if !c.Next() {
				continue
			}
			one(c, program(contexts[0], nil, core))
		}
	}
}

// Corpus yields the source text of every program of the quick tier (used as a
// corpus by other checks: C04, C11, C08).
func Corpus(maxCore int, yield func(src string)) {
	g := newG()
	pfx := prefixes(false)
	for _, ctx := range contexts {
		for n := 1; n <= maxCore; n++ {
			for _, core := range g.stmts(n, ctx.inLoop) {
				for _, p := range pfx {
					yield(gen.Source(program(ctx, p, core)))
				}
			}
		}
	}
}

func one(c *fw.Ctx, body []gen.Stmt) {
	src := gen.Source(body)
	if c.Skip(src) {
		return
	}
	in := ref.New()
	r := in.Run(&gen.Program{Main: body})
	if r.Unsupported != "" || r.Budget {
		c.Infra("reference cannot run generated program (%s budget=%v): %s", r.Unsupported, r.Budget, src)
		return
	}
	c.AddStates(1)
	c.AddTransitions(int64(in.Steps))
	if in.PendingFinally > 0 {
		c.Nontrivial()
	}
	c.Sample(map[string]any{"program": src, "reference": cmpx.RefString(r)})
	for _, noopt := range []bool{false, true} {
		o := run.Source(src, run.Options{NoOptimize: noopt})
		c.AddTraces(1)
		if d := cmpx.Compare(r, o); d != "" {
			// re-run for stability before reporting
			stable := true
			for i := 0; i < 4; i++ {
				// (the text of a disagreement may vary from run to run - Go stacks, addresses; unstable means that a
				// re-run AGREES with the reference)
				if cmpx.Compare(r, run.Source(src, run.Options{NoOptimize: noopt})) == "" {
					stable = false
				}
			}
			if !stable {
				c.Infra("unstable disagreement on %s", src)
				return
			}
			c.Violation(src, d, map[string]any{"program": src, "no_optimize": noopt, "reference": cmpx.RefString(r), "implementation": o.String()})
			c.Outcome("disagree")
			return
		}
	}
	if r.ErrName != "" {
		c.Outcome("error:" + r.ErrName)
	} else {
		c.Outcome("value")
	}
}
