package c03

import (
	"fmt"
	"strings"

	"verif/internal/fw"
	"verif/internal/run"
)

// Family "frame-limit": the call-frame limit is reached while handlers are active in the very activation whose call
// fails (or in its callers). The property lists stack overflow as the documented exception "which no handler
// intercepts"; the implementation does deliver the frame-limit error to handlers. Either reading is accepted, nothing
// else: the run of the recursing program P_limit must either (b) end with StackOverflowError returned from Run, or
// (a) have exactly the outcome of the twin program P_throw in which the failing call is replaced by an explicit throw
// at the same depth D (D is calibrated on the implementation by a handler-free recursion with the same wrapper).
// Activations use at most one value-stack slot besides the callee, so the frame limit comes before the value-stack
// limit; a twin that does not end normally is an infrastructure error, never a verdict.

// '@' marks the place of the guard `if n >= D { throw "lim" }; ` in the twin, CALL the recursive call.
var flShapes = []struct {
	name, body string
	local      bool // the activation has a local variable: only in the mutual recursion (2+1 slots per pair)
}{
	{"catch-return", `try { @return CALL + 1 } catch { return 0 }`, false},
	{"catch-fallthrough", `try { @return CALL + 1 } catch { m++ }; return 0`, false},
	{"finally-only", `try { @return CALL + 1 } finally { m++ }`, false},
	{"catch-finally", `try { @return CALL + 1 } catch { return 0 } finally { m++ }`, false},
	{"catch-rethrow", `try { @return CALL + 1 } catch { m++; throw "again" }`, false},
	{"catch-var", `try { @return CALL + 1 } catch e { return isError(e) ? 0 : -1000 }`, true},
	{"loop-retry", `for i := 0; i < 2; i++ { try { @return CALL + 1 } catch { m++; continue } }; return 0`, true},
	{"nested-finally-catch", `try { try { @return CALL + 1 } finally { m++ } } catch { return 0 }`, false},
	{"call-in-define", `try { @x := CALL; return x + 1 } catch { return 0 }`, true},
	{"finally-return", `try { @return CALL + 1 } finally { return 7 }`, false},
	{"catch-break", `for { try { @return CALL + 1 } catch { break } }; return 0`, false},
	{"no-handler", `@return CALL + 1`, false},
}

var flWrappers = []struct{ name, pre, start string }{
	{"direct", "", "f()"},
	{"one-frame", "w1 := func() { return f() + 0 }; ", "w1()"},
	{"two-frames", "w1 := func() { return f() + 0 }; w2 := func() { return w1() + 0 }; ", "w2()"},
}

func flProgram(shape, wrapper int, mutual, topCaught bool, d int) string {
	// the failing call is made by the deepest activation: entry number d. Entries alternate f, g, f, ... in the mutual
	// recursion, so the guard goes into the function that is entered d-th; ">=" because a handler of the caller may
	// retry and enter the deepest function again.
	guardF, guardG := "", ""
	if d > 0 {
		guard := fmt.Sprintf(`if n >= %d { throw "lim" }; `, d)
		if !mutual || d%2 == 1 {
			guardF = guard
		} else {
			guardG = guard
		}
	}
	call := "f()"
	if mutual {
		call = "g()"
	}
	body := strings.ReplaceAll(strings.ReplaceAll(flShapes[shape].body, "@", guardF), "CALL", call)
	var sb strings.Builder
	sb.WriteString("n := 0; m := 0; var (f, g); ")
	fmt.Fprintf(&sb, "f = func() { n++; %s }; ", body)
	if mutual {
		fmt.Fprintf(&sb, "g = func() { n++; %sreturn f() + 1 }; ", guardG)
	}
	w := flWrappers[wrapper]
	sb.WriteString(w.pre)
	if topCaught {
		fmt.Fprintf(&sb, "var r; try { r = %s } catch { r = \"ERR\" }; return [r, n, m]", w.start)
	} else {
		fmt.Fprintf(&sb, "return [%s, n, m]", w.start)
	}
	return sb.String()
}

func flKey(o run.Obs) string {
	if o.ErrName != "" || o.ErrText != "" {
		return "ERR"
	}
	return "OK " + o.Val
}

func runFrameLimit(c *fw.Ctx) {
	c.Family("frame-limit", fmt.Sprintf("%d handler shapes x {self, mutual recursion} x %d wrappers x {top-level catch, none} x recover on/off x optimizer on/off; "+
		"P_limit vs twin P_throw at the calibrated depth", len(flShapes), len(flWrappers)))
	// calibrate: entries of f before the limit, per wrapper and recursion kind
	depth := map[[2]int]int{}
	for wi := range flWrappers {
		for mi := 0; mi < 2; mi++ {
			probe := flProgram(len(flShapes)-1, wi, mi == 1, true, 0)
			o := run.Source(probe, run.Options{})
			var r string
			var n, m int
			if _, err := fmt.Sscanf(o.Val, "[%q, %d, %d]", &r, &n, &m); err != nil || r != "ERR" || n < 100 {
				c.Infra("frame-limit calibration failed for %s: %s", probe, o.String())
				return
			}
			depth[[2]int{wi, mi}] = n
		}
	}
	for si := range flShapes {
		for wi := range flWrappers {
			for mi := 0; mi < 2; mi++ {
				for ti := 0; ti < 2; ti++ {
					if !c.Next() || (flShapes[si].local && mi == 0) {
						continue
					}
					d := depth[[2]int{wi, mi}]
					lim := flProgram(si, wi, mi == 1, ti == 1, 0)
					twin := flProgram(si, wi, mi == 1, ti == 1, d)
					key := fmt.Sprintf("frame-limit shape=%s wrapper=%s mutual=%v top-catch=%v", flShapes[si].name, flWrappers[wi].name, mi == 1, ti == 1)
					if c.Skip(key) {
						continue
					}
					c.AddStates(2)
					c.Nontrivial()
					for _, noopt := range []bool{false, true} {
						for _, norec := range []bool{false, true} {
							opt := run.Options{NoOptimize: noopt, NoRecover: norec}
							b := run.Source(twin, opt)
							if b.Panic != "" || b.Hung || b.CompileErr != "" || b.ErrName == "StackOverflowError" || strings.Contains(b.ErrText, "out of range") {
								c.Infra("frame-limit twin does not end normally (%s): %s -> %s", key, twin, b.String())
								return
							}
							a := run.Source(lim, opt)
							c.AddTraces(2)
							c.Sample(map[string]any{"program": lim, "twin": twin, "depth": d, "outcome": a.String(), "twin_outcome": b.String()})
							switch {
							case a.Panic == "" && !a.Hung && flKey(a) == flKey(b):
								c.Outcome("as-thrown:" + strings.SplitN(flKey(a), " ", 2)[0])
							case a.Panic == "" && !a.Hung && a.ErrName == "StackOverflowError":
								c.Outcome("not-intercepted")
							default:
								c.Violation(key, fmt.Sprintf("frame-limit error neither passes the handlers as StackOverflowError nor behaves as a thrown error: got %s, twin with an explicit throw at depth %d gives %s", a.String(), d, b.String()),
									map[string]any{"program": lim, "twin": twin, "depth": d, "no_optimize": noopt, "no_recover": norec, "implementation": a.String(), "twin_outcome": b.String()})
								c.Outcome("disagree")
							}
						}
					}
				}
			}
		}
	}
}
