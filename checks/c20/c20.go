// Package c20 decides C20: values cross the Go boundary without change.
package c20

import (
	"encoding/json"
	"errors"
	"fmt"
	"io/fs"
	"math"
	"reflect"
	"regexp"
	"sort"
	"strings"
	"time"

	"github.com/ozanh/ugo"
	ujson "github.com/ozanh/ugo/stdlib/json"
	utime "github.com/ozanh/ugo/stdlib/time"

	"verif/internal/fw"
	"verif/internal/uv"
)

var _ = ujson.Module
var _ = utime.Module

func init() {
	fw.Register(&fw.Check{
		ID:    "C20",
		Level: "exploration",
		Rule: "five exhaustive families: U = every uGO value of depth <= 2 (thorough 3) with <= 2 elements over the leaf pool, round trip ToObject(ToInterface(v)) and ToObjectAlt; " +
			"G = every Go value of the same shape over the canonical Go counterparts (incl. nil slices/maps), round trip ToInterface(ToObject(g)); " +
			"W = every other Go integer/float width at its boundaries through ToObject and ToObjectAlt; X = every unsupported Go type alone and at every position of nested containers; " +
			"R = registry types (time.Time, *time.Time, Duration, *Location, RawMessage) incl. nil pointers and unregistered pointer types. non-trivial = the value is a container or a non-canonical width",
		Run: run,
		Assumptions: []string{
			"nil and empty slices/maps are interchangeable (property text)",
		},
	})
}

func leaves() []ugo.Object {
	return []ugo.Object{
		ugo.Int(0), ugo.Int(1), ugo.Int(-1), ugo.Int(math.MaxInt64), ugo.Int(math.MinInt64),
		ugo.Uint(0), ugo.Uint(1 << 63), ugo.Uint(math.MaxUint64),
		ugo.Float(0), ugo.Float(math.Copysign(0, -1)), ugo.Float(1.5), ugo.Float(math.NaN()), ugo.Float(math.Inf(1)), ugo.Float(math.Inf(-1)), ugo.Float(1 << 53),
		ugo.True, ugo.False,
		ugo.Char('a'), ugo.Char(0), ugo.Char(0x10FFFF), ugo.Char(-1),
		ugo.String(""), ugo.String("a"), ugo.String("\xff"),
		ugo.Bytes{}, ugo.Bytes("a"), ugo.Bytes{0, 255},
		ugo.Undefined,
	}
}

func reduced() []ugo.Object {
	return []ugo.Object{ugo.Int(1), ugo.Uint(2), ugo.Float(math.Copysign(0, -1)), ugo.True, ugo.Char('a'), ugo.String("s"), ugo.Bytes("b"), ugo.Undefined}
}

// containers builds every array and map with <= 2 elements over elems.
func containers(elems []ugo.Object, yield func(ugo.Object)) {
	yield(ugo.Array{})
	yield(ugo.Map{})
	for _, a := range elems {
		yield(ugo.Array{a})
		yield(ugo.Map{"a": a})
		yield(ugo.Map{"": a})
		for _, b := range elems {
			yield(ugo.Array{a, b})
			yield(ugo.Map{"a": a, "b": b})
		}
	}
}

func protectObj(f func() (ugo.Object, error)) (o ugo.Object, err error, pan any) {
	defer func() {
		if r := recover(); r != nil {
			pan = r
		}
	}()
	o, err = f()
	return
}

func protectAny(f func() any) (v any, pan any) {
	defer func() {
		if r := recover(); r != nil {
			pan = r
		}
	}()
	v = f()
	return
}

// goRepr is a canonical text of Go values with nil == empty for slices/maps.
func goRepr(v any) string {
	var sb strings.Builder
	grep(&sb, v)
	return sb.String()
}

func grep(sb *strings.Builder, v any) {
	switch x := v.(type) {
	case nil:
		sb.WriteString("nil")
	case int64:
		fmt.Fprintf(sb, "int64(%d)", x)
	case uint64:
		fmt.Fprintf(sb, "uint64(%d)", x)
	case float64:
		sb.WriteString("float64(" + uv.FloatRepr(x) + ")")
	case bool:
		fmt.Fprintf(sb, "%v", x)
	case rune:
		fmt.Fprintf(sb, "rune(%d)", x)
	case string:
		fmt.Fprintf(sb, "%q", x)
	case []byte:
		fmt.Fprintf(sb, "[]byte(%q)", string(x))
	case []any:
		sb.WriteString("[")
		for i, e := range x {
			if i > 0 {
				sb.WriteString(",")
			}
			grep(sb, e)
		}
		sb.WriteString("]")
	case map[string]any:
		keys := make([]string, 0, len(x))
		for k := range x {
			keys = append(keys, k)
		}
		sort.Strings(keys)
		sb.WriteString("{")
		for i, k := range keys {
			if i > 0 {
				sb.WriteString(",")
			}
			fmt.Fprintf(sb, "%q:", k)
			grep(sb, x[k])
		}
		sb.WriteString("}")
	default:
		fmt.Fprintf(sb, "<%T:%v>", v, v)
	}
}

func run(c *fw.Ctx) {
	// ---- U: uGO -> Go -> uGO -------------------------------------------------
	c.Family("U:ugo-roundtrip", "leaves; containers of <=2 over all leaves; depth 2 (thorough: 3) over the reduced pool")
	one := func(v ugo.Object, nt bool) {
		if !c.Next() {
			return
		}
		if nt {
			c.Nontrivial()
		}
		want := uv.Repr(v)
		c.Sample(want)
		g, pan := protectAny(func() any { return ugo.ToInterface(v) })
		if pan != nil {
			c.Violation("U|ToInterface|"+want, fmt.Sprintf("ToInterface(%s) panics: %v", want, pan), nil)
			return
		}
		for _, alt := range []bool{false, true} {
			name := "ToObject"
			f := ugo.ToObject
			if alt {
				name, f = "ToObjectAlt", ugo.ToObjectAlt
			}
			back, err, pan := protectObj(func() (ugo.Object, error) { return f(g) })
			switch {
			case pan != nil:
				c.Violation("U|"+name+"|"+want, fmt.Sprintf("%s(ToInterface(%s)) panics: %v", name, want, pan), nil)
			case err != nil:
				c.Violation("U|"+name+"|"+want, fmt.Sprintf("%s(ToInterface(%s)) fails: %v", name, want, err), nil)
			case alt && strings.Contains(want, "char("):
				// ToObjectAlt maps rune (int32) to Int by documentation ("always convert signed integers to Int"): numeric value only
				if uv.Repr(back) != charRe.ReplaceAllString(want, "$1") {
					c.Violation("U|"+name+"|"+want, fmt.Sprintf("%s(ToInterface(%s)) = %s: numeric value changed", name, want, uv.Repr(back)), nil)
				}
			case uv.Repr(back) != want:
				c.Violation("U|"+name+"|"+want, fmt.Sprintf("%s(ToInterface(%s)) = %s", name, want, uv.Repr(back)), nil)
			}
		}
	}
	for _, l := range leaves() {
		one(l, false)
	}
	containers(leaves(), func(o ugo.Object) { one(o, true) })
	var d1 []ugo.Object
	d1 = append(d1, reduced()...)
	containers(reduced(), func(o ugo.Object) { d1 = append(d1, o) })
	var d2 []ugo.Object
	containers(d1, func(o ugo.Object) {
		one(o, true)
		if c.Thorough() {
			d2 = append(d2, o)
		}
	})
	for _, o := range d2 {
		one(ugo.Array{o}, true)
		one(ugo.Map{"k": o}, true)
		one(ugo.Array{ugo.Int(1), o}, true)
	}
	// SyncMap converts like a map
	for _, l := range leaves() {
		if !c.Next() {
			continue
		}
		sm := &ugo.SyncMap{Value: ugo.Map{"a": l}}
		g, pan := protectAny(func() any { return ugo.ToInterface(sm) })
		if pan != nil {
			c.Violation("U|syncmap|"+uv.Repr(l), fmt.Sprintf("ToInterface(syncMap{a: %s}) panics: %v", uv.Repr(l), pan), nil)
			continue
		}
		back, err, pan := protectObj(func() (ugo.Object, error) { return ugo.ToObject(g) })
		if pan != nil || err != nil || uv.Repr(back) != uv.Repr(ugo.Map{"a": l}) {
			c.Violation("U|syncmap|"+uv.Repr(l), fmt.Sprintf("syncMap{a: %s} does not round trip as a map: %v %v %v", uv.Repr(l), back, err, pan), nil)
		}
	}

	// ---- G: Go -> uGO -> Go ----------------------------------------------------
	c.Family("G:go-roundtrip", "canonical Go values, depth <= 2 with <= 2 elements incl. nil slices and maps")
	gl := []any{int64(0), int64(-1), int64(math.MaxInt64), int64(math.MinInt64), uint64(0), uint64(math.MaxUint64), float64(0), math.Copysign(0, -1), 1.5, math.NaN(), math.Inf(-1),
		true, false, rune('a'), rune(0), rune(-1), rune(0x10FFFF), "", "a", "\xff", []byte(nil), []byte{}, []byte("a"), nil,
		[]any(nil), []any{}, map[string]any(nil), map[string]any{}}
	goOne := func(g any, nt bool) {
		if !c.Next() {
			return
		}
		if nt {
			c.Nontrivial()
		}
		want := goRepr(g)
		c.Sample(want)
		for _, alt := range []bool{false, true} {
			name := "ToObject"
			f := ugo.ToObject
			if alt {
				name, f = "ToObjectAlt", ugo.ToObjectAlt
			}
			o, err, pan := protectObj(func() (ugo.Object, error) { return f(g) })
			if pan != nil {
				c.Violation("G|"+name+"|"+want, fmt.Sprintf("%s(%s) panics: %v", name, want, pan), nil)
				continue
			}
			if err != nil {
				c.Violation("G|"+name+"|"+want, fmt.Sprintf("%s(%s) fails: %v", name, want, err), nil)
				continue
			}
			if o == nil {
				c.Violation("G|"+name+"|"+want, fmt.Sprintf("%s(%s) returns a nil Object without error", name, want), nil)
				continue
			}
			back, pan := protectAny(func() any { return ugo.ToInterface(o) })
			if pan != nil {
				c.Violation("G|"+name+"|"+want, fmt.Sprintf("ToInterface(%s(%s)) panics: %v", name, want, pan), nil)
				continue
			}
			got := goRepr(back)
			if alt {
				// rune is int32 for ToObjectAlt: Int with the same value
				got = strings.ReplaceAll(got, "int64(", "N(")
				w := strings.ReplaceAll(strings.ReplaceAll(want, "rune(", "N("), "int64(", "N(")
				if got != w {
					c.Violation("G|"+name+"|"+want, fmt.Sprintf("ToInterface(%s(%s)) = %s", name, want, goRepr(back)), nil)
				}
				continue
			}
			if got != want {
				c.Violation("G|"+name+"|"+want, fmt.Sprintf("ToInterface(%s(%s)) = %s", name, want, got), nil)
			}
		}
	}
	for _, g := range gl {
		goOne(g, false)
	}
	for _, a := range gl {
		goOne([]any{a}, true)
		goOne(map[string]any{"a": a}, true)
		for _, b := range gl {
			goOne([]any{a, b}, true)
			goOne(map[string]any{"a": a, "": b}, true)
			goOne([]any{[]any{a}, map[string]any{"k": b}}, true)
			goOne(map[string]any{"x": []any{a, b}}, true)
		}
	}

	// ---- A: results are independent objects -----------------------------------------
	// convert, mutate the result in place (every map gets a key, every non-empty array/bytes gets its first element
	// overwritten), convert an equal value again: the second result must not show the mutation (no shared state
	// between conversions), in both directions
	c.Family("A:aliasing", "every Go value of G (fresh copy each time) converted twice with the first result mutated in between; every uGO container of U converted to Go twice likewise")
	aliasOne := func(g any) {
		if !c.Next() {
			return
		}
		c.Nontrivial()
		want := goRepr(g)
		for _, alt := range []bool{false, true} {
			name, f := "ToObject", ugo.ToObject
			if alt {
				name, f = "ToObjectAlt", ugo.ToObjectAlt
			}
			o1, err, pan := protectObj(func() (ugo.Object, error) { return f(cloneGo(g)) })
			if pan != nil || err != nil || o1 == nil {
				continue // reported by family G
			}
			before := uv.Repr(o1)
			mutateObj(o1)
			o2, err, pan := protectObj(func() (ugo.Object, error) { return f(cloneGo(g)) })
			if pan != nil || err != nil || o2 == nil {
				c.Violation("A|"+name+"|"+want, fmt.Sprintf("second %s(%s) fails: %v %v", name, want, err, pan), nil)
				continue
			}
			if after := uv.Repr(o2); after != before {
				c.Violation("A|"+name+"|"+want, fmt.Sprintf("%s(%s) gives %s, but after an earlier result of the same conversion was modified in place it gives %s", name, want, before, after), nil)
			}
		}
		// the other direction
		o, err, pan := protectObj(func() (ugo.Object, error) { return ugo.ToObject(cloneGo(g)) })
		if pan != nil || err != nil || o == nil {
			return
		}
		v1, pan1 := protectAny(func() any { return ugo.ToInterface(o) })
		if pan1 != nil {
			return
		}
		before := goRepr(v1)
		mutateGo(v1)
		o, _, _ = protectObj(func() (ugo.Object, error) { return ugo.ToObject(cloneGo(g)) })
		v2, pan2 := protectAny(func() any { return ugo.ToInterface(o) })
		if pan2 != nil {
			return
		}
		if after := goRepr(v2); after != before {
			c.Violation("A|ToInterface|"+want, fmt.Sprintf("ToInterface of %s gives %s, but after an earlier result was modified in place it gives %s", want, before, after), nil)
		}
	}
	for _, g := range gl {
		aliasOne(g)
	}
	for _, a := range gl {
		aliasOne([]any{a})
		aliasOne(map[string]any{"a": a})
		for _, b := range gl {
			aliasOne([]any{a, b})
			aliasOne(map[string]any{"a": a, "": b})
			aliasOne([]any{[]any{a}, map[string]any{"k": b}})
			aliasOne(map[string]any{"x": []any{a, b}})
		}
	}

	// ---- W: other widths ----------------------------------------------------------
	c.Family("W:widths", "int,int8..int32,uint..uint32,uintptr,float32,byte at their boundaries, alone and nested")
	type wcase struct {
		v    any
		num  string // numeric value
		both bool   // ToObject must support it too
	}
	var ws []wcase
	addI := func(v any, n int64, both bool) { ws = append(ws, wcase{v, fmt.Sprintf("%d", n), both}) }
	addU := func(v any, n uint64, both bool) { ws = append(ws, wcase{v, fmt.Sprintf("%d", n), both}) }
	for _, n := range []int64{0, 1, -1, math.MaxInt64, math.MinInt64} {
		addI(int(n), n, true)
	}
	for _, n := range []int64{0, -1, math.MaxInt8, math.MinInt8} {
		addI(int8(n), n, false)
	}
	for _, n := range []int64{0, -1, math.MaxInt16, math.MinInt16} {
		addI(int16(n), n, false)
	}
	for _, n := range []int64{0, -1, math.MaxInt32, math.MinInt32} {
		addI(int32(n), n, true) // rune
	}
	for _, n := range []uint64{0, 1, math.MaxUint64} {
		addU(uint(n), n, true)
		addU(uintptr(n), n, true)
	}
	for _, n := range []uint64{0, 1, math.MaxUint8} {
		addU(uint8(n), n, true) // byte
	}
	for _, n := range []uint64{0, 1, math.MaxUint16} {
		addU(uint16(n), n, false)
	}
	for _, n := range []uint64{0, 1, math.MaxUint32} {
		addU(uint32(n), n, false)
	}
	for _, f := range []float32{0, 1.5, float32(math.Copysign(0, -1)), math.MaxFloat32, math.SmallestNonzeroFloat32, float32(math.Inf(1))} {
		ws = append(ws, wcase{f, uv.FloatRepr(float64(f)), true})
	}
	for _, w := range ws {
		for _, nest := range []int{0, 1, 2} {
			if !c.Next() {
				continue
			}
			c.Nontrivial()
			in := w.v
			switch nest {
			case 1:
				in = []any{int64(7), w.v}
			case 2:
				in = map[string]any{"k": []any{w.v}}
			}
			desc := fmt.Sprintf("%T(%v) nest=%d", w.v, w.v, nest)
			c.Sample(desc)
			for _, alt := range []bool{false, true} {
				name := "ToObject"
				f := ugo.ToObject
				if alt {
					name, f = "ToObjectAlt", ugo.ToObjectAlt
				}
				o, err, pan := protectObj(func() (ugo.Object, error) { return f(in) })
				if pan != nil {
					c.Violation("W|"+name+"|"+desc, fmt.Sprintf("%s(%s) panics: %v", name, desc, pan), nil)
					continue
				}
				if err != nil {
					if alt || w.both {
						c.Violation("W|"+name+"|"+desc, fmt.Sprintf("%s(%s) fails: %v", name, desc, err), nil)
					}
					continue
				}
				leaf := o
				switch nest {
				case 1:
					if a, ok := o.(ugo.Array); ok && len(a) == 2 {
						leaf = a[1]
					}
				case 2:
					if m, ok := o.(ugo.Map); ok {
						if a, ok := m["k"].(ugo.Array); ok && len(a) == 1 {
							leaf = a[0]
						}
					}
				}
				if leaf == nil || numRepr(leaf) != w.num {
					c.Violation("W|"+name+"|"+desc, fmt.Sprintf("%s(%s) = %s: numeric value not preserved (want %s)", name, desc, uv.Repr(o), w.num), nil)
				}
			}
		}
	}

	// ---- X: unsupported types -------------------------------------------------------
	c.Family("X:unsupported", "struct, chan, complex128, []int, map[int]any, func(), int8 (ToObject only) alone and at every position of nested containers")
	type S struct{ A int }
	bad := []any{S{1}, &S{1}, make(chan int), complex(1, 2), []int{1}, map[int]any{1: 2}, func() {}, [2]int{1, 2}, map[string]int{"a": 1}, []string{"a"}}
	good := []any{int64(1), "s", nil, []any{int64(2)}}
	for bi, b := range bad {
		shapes := []any{b, []any{b}, map[string]any{"k": b}, []any{[]any{b}}, map[string]any{"k": map[string]any{"j": b}}, []any{map[string]any{"k": b}}}
		for _, g := range good {
			shapes = append(shapes, []any{b, g}, []any{g, b}, []any{g, b, g}, []any{b, g, g}, map[string]any{"a": b, "b": g}, map[string]any{"a": g, "b": b}, []any{g, []any{g, b, g}, g})
		}
		for si, sh := range shapes {
			if !c.Next() {
				continue
			}
			c.Nontrivial()
			desc := fmt.Sprintf("unsupported#%d(%T) shape#%d", bi, b, si)
			c.Sample(desc)
			for _, alt := range []bool{false, true} {
				name := "ToObject"
				f := ugo.ToObject
				if alt {
					name, f = "ToObjectAlt", ugo.ToObjectAlt
				}
				o, err, pan := protectObj(func() (ugo.Object, error) { return f(sh) })
				if pan != nil {
					c.Violation("X|"+name+"|"+desc, fmt.Sprintf("%s(%s) panics: %v", name, desc, pan), nil)
				} else if err == nil {
					c.Violation("X|"+name+"|"+desc, fmt.Sprintf("%s(%s) reports no error for an unsupported Go type (returned %v)", name, desc, o), nil)
				}
			}
		}
	}

	// ---- R: registry types ------------------------------------------------------------
	c.Family("R:registry", "time.Time, *time.Time, time.Duration, *time.Location, json.RawMessage incl. nil pointers and unregistered pointer types, alone and nested")
	t0 := time.Date(2020, 2, 3, 4, 5, 6, 7, time.UTC)
	tz0 := time.Time{}
	tz1 := time.Date(1, 1, 1, 1, 0, 0, 0, time.FixedZone("plus1", 3600))
	tz2 := time.Time{}.Add(1)
	tz3 := time.Unix(0, 0).UTC()
	tz4 := time.Date(9999, 12, 31, 23, 59, 59, 999999999, time.UTC)
	var nilT *time.Time
	var nilL *time.Location
	var nilD *time.Duration
	var nilR *json.RawMessage
	d := time.Duration(5)
	rm := json.RawMessage(`{"a":1}`)
	type rcase struct {
		name string
		v    any
		ok   bool // conversion must succeed
		back any  // expected ToInterface result when non-nil
	}
	rs := []rcase{
		{"time.Time", t0, true, t0}, {"*time.Time", &t0, true, t0}, {"nil *time.Time", nilT, true, nil},
		{"time.Duration", d, true, int64(5)}, {"*time.Location", time.UTC, true, time.UTC}, {"nil *time.Location", nilL, true, nil},
		{"json.RawMessage", rm, true, rm}, {"nil json.RawMessage", json.RawMessage(nil), true, json.RawMessage{}},
		// boundary instants: the zero time (also written in another zone), its neighbours, the epoch, extremes
		{"zero time.Time", tz0, true, tz0}, {"*zero time.Time", &tz0, true, tz0}, {"zero instant in +01:00", tz1, true, tz1}, {"*zero instant in +01:00", &tz1, true, tz1},
		{"zero time + 1ns", tz2, true, tz2}, {"unix epoch", tz3, true, tz3}, {"year 9999", tz4, true, tz4}, {"zero time.Duration", time.Duration(0), true, int64(0)},
		{"empty json.RawMessage", json.RawMessage{}, true, json.RawMessage{}},
		// locations are what they are, not what they are called: fixed zones that carry the names of the two singletons
		{"*time.Location Local", time.Local, true, time.Local}, {"fixed zone +01:00", time.FixedZone("plus1", 3600), true, time.FixedZone("plus1", 3600)},
		{"fixed zone named UTC at +05:30", time.FixedZone("UTC", 19800), true, time.FixedZone("UTC", 19800)},
		{"fixed zone named Local at -08:00", time.FixedZone("Local", -28800), true, time.FixedZone("Local", -28800)},
		{"fixed zone with an empty name", time.FixedZone("", 7200), true, time.FixedZone("", 7200)},
		{"nil *time.Duration", nilD, false, nil}, {"*time.Duration", &d, false, nil}, {"nil *json.RawMessage", nilR, false, nil}, {"*json.RawMessage", &rm, false, nil},
	}
	// Go error values: a typed nil pointer is still a (non-nil) error interface value; converting it must not call
	// its methods on nil
	var nilPE *fs.PathError
	var nilUE *ugo.Error
	for _, ev := range []struct {
		name string
		v    any
	}{{"nil *fs.PathError", error(nilPE)}, {"nil *ugo.Error", nilUE}, {"errors.New", errors.New("e")}, {"*fs.PathError", &fs.PathError{Op: "o", Path: "p", Err: errors.New("x")}}} {
		for _, nest := range []int{0, 1, 2} {
			if !c.Next() {
				continue
			}
			c.Nontrivial()
			in := ev.v
			switch nest {
			case 1:
				in = []any{ev.v, int64(1)}
			case 2:
				in = map[string]any{"k": ev.v}
			}
			for _, alt := range []bool{false, true} {
				name, f := "ToObject", ugo.ToObject
				if alt {
					name, f = "ToObjectAlt", ugo.ToObjectAlt
				}
				o, err, pan := protectObj(func() (ugo.Object, error) { return f(in) })
				if pan != nil {
					c.Violation(fmt.Sprintf("X|%s|error %s nest=%d", name, ev.name, nest), fmt.Sprintf("%s(%s nest=%d) panics: %v", name, ev.name, nest, pan), nil)
					continue
				}
				if err == nil {
					if _, pan := protectAny(func() any { _ = uv.Repr(o); return ugo.ToInterface(o) }); pan != nil {
						c.Violation(fmt.Sprintf("X|%s|error %s nest=%d", name, ev.name, nest), fmt.Sprintf("the result of %s(%s nest=%d) panics when printed or converted back: %v", name, ev.name, nest, pan), nil)
					}
				}
			}
		}
	}
	// uGO values handed to ToObject as they are (Object in, Object out): nil containers of the named uGO types stay
	// containers of their type (nil and empty being interchangeable), they do not turn into undefined
	for _, nc := range []struct {
		name string
		o    ugo.Object
		want string
	}{{"ugo.Map(nil)", ugo.Map(nil), "map"}, {"ugo.Array(nil)", ugo.Array(nil), "array"}, {"ugo.Bytes(nil)", ugo.Bytes(nil), "bytes"},
		{"ugo.Map{}", ugo.Map{}, "map"}, {"ugo.Array{}", ugo.Array{}, "array"}, {"ugo.String(\"\")", ugo.String(""), "string"}} {
		for _, nest := range []int{0, 1, 2} {
			if !c.Next() {
				continue
			}
			c.Nontrivial()
			var in any = nc.o
			switch nest {
			case 1:
				in = []any{nc.o, int64(1)}
			case 2:
				in = map[string]any{"k": nc.o}
			}
			for _, alt := range []bool{false, true} {
				name, f := "ToObject", ugo.ToObject
				if alt {
					name, f = "ToObjectAlt", ugo.ToObjectAlt
				}
				o, err, pan := protectObj(func() (ugo.Object, error) { return f(in) })
				key := fmt.Sprintf("O|%s|%s nest=%d", name, nc.name, nest)
				if pan != nil || err != nil {
					c.Violation(key, fmt.Sprintf("%s(%s nest=%d): error %v panic %v", name, nc.name, nest, err, pan), nil)
					continue
				}
				got := o
				switch nest {
				case 1:
					if a, ok := o.(ugo.Array); ok && len(a) == 2 {
						got = a[0]
					}
				case 2:
					if m, ok := o.(ugo.Map); ok {
						got = m["k"]
					}
				}
				if got == nil || got.TypeName() != nc.want {
					tn := "<nil>"
					if got != nil {
						tn = got.TypeName()
					}
					c.Violation(key, fmt.Sprintf("%s(%s nest=%d) gives a value of type %s, want %s", name, nc.name, nest, tn, nc.want), nil)
				}
			}
		}
	}
	// typed nil pointers of the object types the stdlib registers: ToInterface must not panic on them
	for _, tn := range []struct {
		name string
		o    ugo.Object
	}{{"(*time.Time)(nil)", (*utime.Time)(nil)}, {"(*time.Location)(nil)", (*utime.Location)(nil)}, {"(*json.RawMessage)(nil)", (*ujson.RawMessage)(nil)}} {
		for _, nest := range []int{0, 1, 2} {
			if !c.Next() {
				continue
			}
			c.Nontrivial()
			var o ugo.Object = tn.o
			switch nest {
			case 1:
				o = ugo.Array{tn.o, ugo.Int(1)}
			case 2:
				o = ugo.Map{"k": tn.o}
			}
			if _, pan := protectAny(func() any { return ugo.ToInterface(o) }); pan != nil {
				c.Violation(fmt.Sprintf("R|ToInterface|typed nil %s nest=%d", tn.name, nest), fmt.Sprintf("ToInterface(%s nest=%d) panics: %v", tn.name, nest, pan), nil)
			}
		}
	}
	for _, r := range rs {
		for _, nest := range []int{0, 1, 2} {
			if !c.Next() {
				continue
			}
			c.Nontrivial()
			in := r.v
			switch nest {
			case 1:
				in = []any{r.v, int64(1)}
			case 2:
				in = map[string]any{"k": r.v}
			}
			desc := fmt.Sprintf("%s nest=%d", r.name, nest)
			c.Sample(desc)
			for _, alt := range []bool{false, true} {
				name := "ToObject"
				f := ugo.ToObject
				if alt {
					name, f = "ToObjectAlt", ugo.ToObjectAlt
				}
				o, err, pan := protectObj(func() (ugo.Object, error) { return f(in) })
				if pan != nil {
					c.Violation("R|"+name+"|"+desc, fmt.Sprintf("%s(%s) panics: %v", name, desc, pan), nil)
					continue
				}
				if !r.ok {
					// pointer types without a registered converter: an error today; a value would also be
					// fine if support were added, but never a panic and never a nil Object without error
					if err == nil && o == nil {
						c.Violation("R|"+name+"|"+desc, fmt.Sprintf("%s(%s) returns neither a value nor an error", name, desc), nil)
					}
					continue
				}
				if err != nil {
					c.Violation("R|"+name+"|"+desc, fmt.Sprintf("%s(%s) fails: %v", name, desc, err), nil)
					continue
				}
				back, pan := protectAny(func() any { return ugo.ToInterface(o) })
				if pan != nil {
					c.Violation("R|"+name+"|"+desc, fmt.Sprintf("ToInterface(%s(%s)) panics: %v", name, desc, pan), nil)
					continue
				}
				leaf := back
				switch nest {
				case 1:
					if a, ok := back.([]any); ok && len(a) == 2 {
						leaf = a[0]
					}
				case 2:
					if m, ok := back.(map[string]any); ok {
						leaf = m["k"]
					}
				}
				if !sameReg(leaf, r.back) {
					c.Violation("R|"+name+"|"+desc, fmt.Sprintf("ToInterface(%s(%s)) = %#v, want %#v", name, desc, leaf, r.back), nil)
				}
			}
		}
	}
}

var charRe = regexp.MustCompile(`char\((-?\d+)\)`)

func sameReg(got, want any) bool {
	switch w := want.(type) {
	case nil:
		return got == nil
	case time.Time:
		g, ok := got.(time.Time)
		// the same instant written in the same zone
		return ok && g.Equal(w) && g.Format(time.RFC3339Nano) == w.Format(time.RFC3339Nano) && g.Location().String() == w.Location().String()
	case json.RawMessage:
		g, ok := got.(json.RawMessage)
		return ok && string(g) == string(w)
	case *time.Location:
		g, ok := got.(*time.Location)
		if !ok || g == nil || w == nil {
			return ok && g == w
		}
		// the same name and the same offset, summer and winter
		for _, m := range []time.Month{time.January, time.July} {
			if time.Date(2020, m, 1, 12, 0, 0, 0, g).Format(time.RFC3339) != time.Date(2020, m, 1, 12, 0, 0, 0, w).Format(time.RFC3339) {
				return false
			}
		}
		return g.String() == w.String()
	}
	return reflect.DeepEqual(got, want)
}

// numRepr is the numeric value of an int/uint/float/char object as text.
func numRepr(o ugo.Object) string {
	switch v := o.(type) {
	case ugo.Int:
		return fmt.Sprintf("%d", int64(v))
	case ugo.Uint:
		return fmt.Sprintf("%d", uint64(v))
	case ugo.Char:
		return fmt.Sprintf("%d", int64(v))
	case ugo.Float:
		return uv.FloatRepr(float64(v))
	}
	return uv.Repr(o)
}

// cloneGo deep-copies the container shapes used by the enumerations.
func cloneGo(v any) any {
	switch v := v.(type) {
	case []any:
		if v == nil {
			return []any(nil)
		}
		out := make([]any, len(v))
		for i := range v {
			out[i] = cloneGo(v[i])
		}
		return out
	case map[string]any:
		if v == nil {
			return map[string]any(nil)
		}
		out := make(map[string]any, len(v))
		for k, e := range v {
			out[k] = cloneGo(e)
		}
		return out
	case []byte:
		if v == nil {
			return []byte(nil)
		}
		return append([]byte{}, v...)
	}
	return v
}

// mutateObj modifies every container reachable from o in place.
func mutateObj(o ugo.Object) {
	switch v := o.(type) {
	case ugo.Map:
		for _, e := range v {
			mutateObj(e)
		}
		v["__mutated"] = ugo.Int(1)
	case *ugo.SyncMap:
		for _, e := range v.Value {
			mutateObj(e)
		}
		v.Value["__mutated"] = ugo.Int(1)
	case ugo.Array:
		for _, e := range v {
			mutateObj(e)
		}
		if len(v) > 0 {
			v[0] = ugo.String("mutated")
		}
	case ugo.Bytes:
		if len(v) > 0 {
			v[0] = 'M'
		}
	}
}

// mutateGo modifies every container reachable from v in place.
func mutateGo(v any) {
	switch v := v.(type) {
	case map[string]any:
		for _, e := range v {
			mutateGo(e)
		}
		if v != nil {
			v["__mutated"] = 1
		}
	case []any:
		for _, e := range v {
			mutateGo(e)
		}
		if len(v) > 0 {
			v[0] = "mutated"
		}
	case []byte:
		if len(v) > 0 {
			v[0] = 'M'
		}
	}
}
