// Package c17 decides C17: the json module produces and accepts exactly
// standard JSON, by differential comparison with encoding/json on exhaustive
// value and document spaces.
package c17

import (
	"bytes"
	"encoding/json"
	"fmt"
	"math"
	"strings"
	"time"

	"github.com/ozanh/ugo"
	ujson "github.com/ozanh/ugo/stdlib/json"
	utime "github.com/ozanh/ugo/stdlib/time"

	"verif/internal/fw"
	"verif/internal/uv"
)

func init() {
	fw.Register(&fw.Check{
		ID:    "C17",
		Level: "exploration",
		Rule: "V = every uGO value of depth <= 2 with <= 2 elements over the leaf pool (boundary numbers, NaN/Inf, HTML-sensitive, U+2028, invalid UTF-8 and control-character strings, bytes of every base64 size class, chars, undefined) in array/map/syncMap, plus non-plain objects; " +
			"D = every byte string of length <= 5 (thorough 7) over the 16-symbol alphabet `{}[]\":,01-.etn\\ ` and every sequence of <= 3 tokens of a 33-token alphabet. " +
			"Oracles: Marshal output is valid JSON and equals encoding/json's for plain values; Unmarshal/Valid/Compact/Indent accept exactly what encoding/json accepts and produce the same result; Unmarshal(Marshal(v)) == v. " +
			"non-trivial = nested value / document that is not rejected at its first byte",
		Run: run,
		Assumptions: []string{
			"encoding/json of the installed Go toolchain is the reference",
		},
	})
}

func fn(name string) func(args ...ugo.Object) (ugo.Object, error) {
	return ujson.Module[name].(*ugo.Function).Value
}

func protect(f func() (ugo.Object, error)) (o ugo.Object, err error, pan any) {
	defer func() {
		if r := recover(); r != nil {
			pan = r
		}
	}()
	o, err = f()
	return
}

func big(n int) ugo.Bytes {
	b := make(ugo.Bytes, n)
	for i := range b {
		b[i] = byte(i * 7)
	}
	return b
}

func leaves() []ugo.Object {
	return []ugo.Object{
		ugo.Int(0), ugo.Int(-1), ugo.Int(math.MaxInt64), ugo.Int(math.MinInt64), ugo.Uint(math.MaxUint64),
		ugo.Float(0), ugo.Float(math.Copysign(0, -1)), ugo.Float(1.5), ugo.Float(100), ugo.Float(1e-7), ugo.Float(1e-6), ugo.Float(1e20), ugo.Float(1e21), ugo.Float(-1e21), ugo.Float(5e-324), ugo.Float(math.MaxFloat64),
		ugo.Float(math.NaN()), ugo.Float(math.Inf(1)),
		ugo.True, ugo.False, ugo.Char('a'), ugo.Char(0), ugo.Char(-1), ugo.Char(0x10FFFF),
		ugo.String(""), ugo.String("a"), ugo.String("<>&"), ugo.String("  "), ugo.String("\xff"), ugo.String("a\xc3"), ugo.String("\x00\x1f\x7f"), ugo.String("\"\\/\b\f\n\r\t"), ugo.String("é😀"), ugo.String("\xed\xa0\x80"),
		ugo.Bytes(nil), ugo.Bytes{}, ugo.Bytes("a"), ugo.Bytes("ab"), ugo.Bytes("abc"), big(47), big(48), big(49), big(766), big(767), big(768), big(769), big(770), big(771), big(1000),
		ugo.Undefined,
	}
}

func plainContainers(elems []ugo.Object, yield func(ugo.Object)) {
	yield(ugo.Array{})
	yield(ugo.Map{})
	yield(&ugo.SyncMap{Value: ugo.Map{}})
	for _, a := range elems {
		yield(ugo.Array{a})
		yield(ugo.Map{"k": a})
		yield(ugo.Map{"<&> \xff": a})
		yield(&ugo.SyncMap{Value: ugo.Map{"k": a}})
		for _, b := range elems {
			yield(ugo.Array{a, b})
			yield(ugo.Map{"b": a, "a": b})
		}
	}
}

func isPlain(o ugo.Object) bool {
	switch v := o.(type) {
	case ugo.Int, ugo.Uint, ugo.Float, ugo.Bool, ugo.Char, ugo.String, ugo.Bytes, *ugo.UndefinedType:
		return true
	case ugo.Array:
		if v == nil {
			return false // nil containers print as null, their Go counterpart (made non-nil by ToInterface) as [] / {}
		}
		for _, e := range v {
			if !isPlain(e) {
				return false
			}
		}
		return true
	case ugo.Map:
		if v == nil {
			return false
		}
		for _, e := range v {
			if !isPlain(e) {
				return false
			}
		}
		return true
	case *ugo.SyncMap:
		return v != nil && isPlain(v.Value)
	}
	return false
}

// representable: Unmarshal(Marshal(v)) must give v back (maps, arrays, valid
// UTF-8 strings, bools, finite floats, undefined, arbitrarily nested).
func representable(o ugo.Object) bool {
	switch v := o.(type) {
	case ugo.Float:
		return !math.IsNaN(float64(v)) && !math.IsInf(float64(v), 0) && !(v == 0 && math.Signbit(float64(v)))
	case ugo.Bool, *ugo.UndefinedType:
		return true
	case ugo.String:
		return strings.ToValidUTF8(string(v), "\x00") == string(v)
	case ugo.Array:
		if v == nil {
			return false
		}
		for _, e := range v {
			if !representable(e) {
				return false
			}
		}
		return true
	case ugo.Map:
		if v == nil {
			return false
		}
		for k, e := range v {
			if !representable(e) || !representable(ugo.String(k)) {
				return false
			}
		}
		return true
	}
	return false
}

func short(o ugo.Object) string {
	s := uv.Repr(o)
	if len(s) > 160 {
		s = s[:160] + fmt.Sprintf("…(%d chars)", len(s))
	}
	return s
}

func run(c *fw.Ctx) {
	values(c)
	documents(c)
}

func values(c *fw.Ctx) {
	marshalMod := fn("Marshal")
	check := func(v ugo.Object, nt bool) {
		if !c.Next() {
			return
		}
		if nt {
			c.Nontrivial()
		}
		desc := short(v)
		c.Sample(desc)
		// Go API
		out, err, pan := protect(func() (ugo.Object, error) {
			b, err := ujson.Marshal(v)
			return ugo.Bytes(b), err
		})
		if pan != nil {
			c.Violation("V|marshal|"+desc, fmt.Sprintf("Marshal(%s) panics: %v", desc, pan), nil)
			return
		}
		var got []byte
		if err == nil {
			got = out.(ugo.Bytes)
			if !json.Valid(got) {
				c.Violation("V|marshal|"+desc, fmt.Sprintf("Marshal(%s) returns malformed JSON %q without an error", desc, trunc(got)), nil)
				return
			}
		}
		// module function agrees with the Go API
		mo, merr, mpan := protect(func() (ugo.Object, error) { return marshalMod(v) })
		if mpan != nil {
			c.Violation("V|marshal-mod|"+desc, fmt.Sprintf("json.Marshal(%s) (module function) panics: %v", desc, mpan), nil)
			return
		}
		if merr == nil {
			if mb, ok := mo.(ugo.Bytes); ok {
				if err != nil || !bytes.Equal(mb, got) {
					c.Violation("V|marshal-mod|"+desc, fmt.Sprintf("module Marshal(%s) = %q but Go API gives %q, %v", desc, trunc(mb), trunc(got), err), nil)
				}
			} else if _, isErr := mo.(*ugo.Error); !isErr || err == nil {
				c.Violation("V|marshal-mod|"+desc, fmt.Sprintf("module Marshal(%s) = %s but Go API gives %q, %v", desc, uv.Repr(mo), trunc(got), err), nil)
			}
		}
		if isPlain(v) {
			want, werr := json.Marshal(goValue(v))
			switch {
			case (werr == nil) != (err == nil):
				c.Violation("V|marshal-ref|"+desc, fmt.Sprintf("Marshal(%s): uGO error=%v, encoding/json error=%v", desc, err, werr), nil)
			case err == nil && !bytes.Equal(norm(want), norm(got)):
				c.Violation("V|marshal-ref|"+desc, fmt.Sprintf("Marshal(%s) = %q, encoding/json gives %q", desc, trunc(got), trunc(want)), nil)
			}
			// MarshalIndent agrees with encoding/json too
			for _, pi := range [][2]string{{"", " "}, {">", "\t"}} {
				gi, gerr := ujson.MarshalIndent(v, pi[0], pi[1])
				wi, werr := json.MarshalIndent(goValue(v), pi[0], pi[1])
				if (gerr == nil) != (werr == nil) || (gerr == nil && !bytes.Equal(norm(gi), norm(wi))) {
					c.Violation("V|marshalindent|"+desc, fmt.Sprintf("MarshalIndent(%s,%q,%q) = %q,%v; encoding/json %q,%v", desc, pi[0], pi[1], trunc(gi), gerr, trunc(wi), werr), nil)
				}
			}
		}
		if err == nil && representable(v) {
			back, uerr, upan := protect(func() (ugo.Object, error) { return ujson.Unmarshal(got) })
			if upan != nil || uerr != nil || uv.Repr(back) != uv.Repr(v) {
				c.Violation("V|roundtrip|"+desc, fmt.Sprintf("Unmarshal(Marshal(%s)) = %v (err %v panic %v)", desc, back, uerr, upan), nil)
			}
		}
	}
	c.Family("V:plain", "leaves, containers of <= 2 elements over all leaves, depth 2 over a reduced pool")
	ls := leaves()
	for _, l := range ls {
		check(l, false)
	}
	plainContainers(ls, func(o ugo.Object) { check(o, true) })
	red := []ugo.Object{ugo.Int(1), ugo.Float(1.5), ugo.String("<a>"), ugo.String("\xff"), ugo.Bytes("ab"), ugo.Undefined, ugo.True, ugo.Char('x'), ugo.Float(math.NaN())}
	var d1 []ugo.Object
	d1 = append(d1, red...)
	plainContainers(red, func(o ugo.Object) { d1 = append(d1, o) })
	plainContainers(d1, func(o ugo.Object) { check(o, true) })

	c.Family("V:nonplain", "functions, errors, pointers, iterators, time values, RawMessage, encoder options - alone and inside array/map")
	und := ugo.Object(ugo.Undefined)
	one := ugo.Object(ugo.Int(1))
	bc, _ := ugo.Compile([]byte("return func(){}"), ugo.CompilerOptions{})
	cf, _ := ugo.NewVM(bc).Run(nil)
	np := []ugo.Object{
		&ugo.Function{Name: "f", Value: func(...ugo.Object) (ugo.Object, error) { return ugo.Undefined, nil }},
		ugo.BuiltinObjects[ugo.BuiltinLen], cf,
		&ugo.Error{Name: "E", Message: "m"}, ugo.ErrType, &ugo.RuntimeError{Err: &ugo.Error{Name: "R"}},
		&ugo.ObjectPtr{Value: &one}, &ugo.ObjectPtr{Value: &und}, &ugo.ObjectPtr{},
		&utime.Time{Value: time.Date(2020, 1, 2, 3, 4, 5, 6, time.UTC)}, &utime.Location{Value: time.UTC},
		&ujson.RawMessage{Value: []byte(`{"a": 1}`)}, &ujson.RawMessage{Value: []byte(`{"a": `)}, &ujson.RawMessage{Value: []byte(``)}, &ujson.RawMessage{Value: nil}, &ujson.RawMessage{Value: []byte(`"<>"`)},
		&ujson.EncoderOptions{Value: ugo.Int(1), Quote: true}, &ujson.EncoderOptions{Value: ugo.String("<a>"), Quote: true, EscapeHTML: true}, &ujson.EncoderOptions{Value: ugo.String("<a>"), EscapeHTML: false},
		&ujson.EncoderOptions{Value: ugo.Array{ugo.Int(1), ugo.Float(1.5), ugo.True, ugo.Char('a'), ugo.Uint(2), ugo.String("s")}, Quote: true},
		&ujson.EncoderOptions{Value: &ugo.Error{Name: "E"}, Quote: true}, &ujson.EncoderOptions{},
		&ugo.SyncMap{}, ugo.Array(nil), ugo.Map(nil),
	}
	for _, o := range np {
		check(o, true)
		check(ugo.Array{o}, true)
		check(ugo.Array{ugo.Int(1), o, ugo.Int(2)}, true)
		check(ugo.Map{"a": o, "b": ugo.Int(1)}, true)
		check(ugo.Map{"a": ugo.Int(1), "b": o}, true)
		check(&ugo.SyncMap{Value: ugo.Map{"a": o}}, true)
		check(&ujson.EncoderOptions{Value: ugo.Array{o}, Quote: true}, true)
	}
}

// goValue is ToInterface with nil byte slices made empty: nil and empty values
// are interchangeable on the uGO side (a script cannot even create nil bytes),
// while encoding/json prints null for one and "" for the other.
func goValue(o ugo.Object) any {
	switch v := o.(type) {
	case ugo.Bytes:
		if v == nil {
			return []byte{}
		}
	case ugo.Array:
		if v == nil {
			return ugo.ToInterface(o)
		}
		out := make([]any, len(v))
		for i, e := range v {
			out[i] = goValue(e)
		}
		return out
	case ugo.Map:
		if v == nil {
			return ugo.ToInterface(o)
		}
		out := make(map[string]any, len(v))
		for k, e := range v {
			out[k] = goValue(e)
		}
		return out
	case *ugo.SyncMap:
		return goValue(v.Value)
	}
	return ugo.ToInterface(o)
}

// norm makes the two spellings of the same escape equal: encoding/json of Go
// >= 1.22 writes \b and \f where older releases (and the copy in stdlib/json)
// write \u0008 and \u000c. Both are the same JSON; this is a difference of
// the Go release the copy was taken from, not of behaviour.
func norm(b []byte) []byte {
	b = bytes.ReplaceAll(b, []byte(`\u0008`), []byte(`\b`))
	return bytes.ReplaceAll(b, []byte(`\u000c`), []byte(`\f`))
}

func trunc(b []byte) string {
	if len(b) > 120 {
		return string(b[:60]) + "…" + string(b[len(b)-60:])
	}
	return string(b)
}

var alphabet = []byte("{}[]\":,01-.etn\\ ")[:16]

var tokens = []string{"{", "}", "[", "]", ":", ",", `"a"`, `"é"`, `"\ud800"`, `"😀"`, `"é"`, `"\n"`, `"\x"`, "\"\xff\"", "\"\n\"", "1", "-0", "01", "-01", "1.5", "1e5", "1E+5", "1e", "-", ".5", "1e400",
	"true", "false", "null", "nul", " ", "\t", "\n"}

func documents(c *fw.Ctx) {
	maxLen := 5
	if c.Thorough() {
		maxLen = 7
	}
	st := &docState{c: c, valid: fn("Valid"), unmarshal: fn("Unmarshal"), compact: fn("Compact"), indent: fn("Indent")}
	c.Family("D:bytes", fmt.Sprintf("all byte strings of length <= %d over %q", maxLen, string(alphabet)))
	buf := make([]byte, 0, maxLen)
	var rec func(n int)
	rec = func(n int) {
		if c.Next() {
			st.doc(buf)
		}
		if n == maxLen {
			return
		}
		for _, b := range alphabet {
			buf = append(buf, b)
			rec(n + 1)
			buf = buf[:len(buf)-1]
		}
	}
	rec(0)
	// U+2028/U+2029 handling in Compact/Indent/Marshal(RawMessage): every string over the bytes of those code points
	c.Family("D:utf8", "all byte strings of length <= 6 over {0xE2,0x80,0xA8,0xA9,'\"','a'} (complete, truncated and mixed U+2028/U+2029 sequences, quoted or not)")
	u8 := []byte{0xE2, 0x80, 0xA8, 0xA9, '"', 'a'}
	var urec func(n int)
	urec = func(n int) {
		if n > 0 && c.Next() {
			st.doc(buf)
			st.raw(buf)
		}
		if n == 6 {
			return
		}
		for _, b := range u8 {
			buf = append(buf, b)
			urec(n + 1)
			buf = buf[:len(buf)-1]
		}
	}
	buf = buf[:0]
	urec(0)
	// string literals that grow while they are unquoted: every malformed byte becomes the 3-byte U+FFFD, so the decoder's
	// output buffer has to grow in the middle of a string - all combinations of prefix, run of malformed bytes and tail
	c.Family("D:strings", "string literals: ASCII prefix {0,1,3} x run of 0..9 (thorough 0..16) malformed bytes of 4 kinds x tail of 0..20 (thorough 0..40) characters (plain, or with escapes) x as a value and as an object key")
	maxBad, maxTail := 9, 20
	if c.Thorough() {
		maxBad, maxTail = 16, 40
	}
	for _, bad := range [][]byte{{0xff}, {0x80}, {0xc0}, {0xe2, 0x80}} {
		for _, pre := range []string{"", "p", "pre"} {
			for k := 0; k <= maxBad; k++ {
				for n := 0; n <= maxTail; n++ {
					for _, esc := range []string{"", "\\n", "\\u00e9", "\\ud83d\\ude00"} {
						for _, asKey := range []bool{false, true} {
							if !c.Next() {
								continue
							}
							d := []byte("\"" + pre)
							for i := 0; i < k; i++ {
								d = append(d, bad...)
							}
							d = append(d, strings.Repeat("t", n)...)
							d = append(d, esc...)
							d = append(d, '"')
							if asKey {
								d = append(append([]byte("{"), d...), []byte(":1}")...)
							}
							st.doc(d)
						}
					}
				}
			}
		}
	}
	// every byte value at every position of a set of small well-formed documents: between tokens, inside literals,
	// inside strings (what counts as white space, as a digit, as a control character is decided per byte)
	templates := []string{`[1,2]`, `{"a":1}`, ` [ true , null ] `, `{"k":[1.5e3,"s"],"m":{}}`, `"a\u00e9\n"`, `-0.5E-2`, `[[],{}]`, `{"a":"b","c":false}`, "[1,\n2]", `[ "x" ]`}
	c.Family("D:byte-at-position", fmt.Sprintf("%d well-formed documents x every position x each of the 256 byte values inserted there or replacing the byte there", len(templates)))
	for _, t := range templates {
		for pos := 0; pos <= len(t); pos++ {
			for b := 0; b < 256; b++ {
				for mode := 0; mode < 2; mode++ {
					if !c.Next() {
						continue
					}
					var d []byte
					if mode == 0 {
						d = append(append(append(d, t[:pos]...), byte(b)), t[pos:]...)
					} else if pos < len(t) {
						d = append(append(append(d, t[:pos]...), byte(b)), t[pos+1:]...)
					} else {
						continue
					}
					st.doc(d)
				}
			}
		}
	}
	// sequences of \u escapes: halves of surrogate pairs in every order, next to ordinary escapes
	escs := []string{`\ud800`, `\udc00`, `\ud83d`, `\ude00`, `\u0041`, `\n`, `a`}
	c.Family("D:escape-sequences", fmt.Sprintf("strings of <= 3 (thorough 4) items over %d escapes (high and low surrogates, BMP, simple, plain) as a string, a key and an array element", len(escs)))
	maxEsc := 3
	if c.Thorough() {
		maxEsc = 4
	}
	var erec func(prefix string, n int)
	erec = func(prefix string, n int) {
		if n > 0 {
			for form := 0; form < 3; form++ {
				if !c.Next() {
					continue
				}
				switch form {
				case 0:
					st.doc([]byte(`"` + prefix + `"`))
				case 1:
					st.doc([]byte(`{"` + prefix + `":1}`))
				default:
					st.doc([]byte(`["x","` + prefix + `"]`))
				}
			}
		}
		if n == maxEsc {
			return
		}
		for _, e := range escs {
			erec(prefix+e, n+1)
		}
	}
	erec("", 0)
	c.Family("D:tokens", fmt.Sprintf("all sequences of <= 3 (thorough 4) tokens of a %d-token alphabet", len(tokens)))
	maxTok := 3
	if c.Thorough() {
		maxTok = 4
	}
	var trec func(prefix string, n int)
	trec = func(prefix string, n int) {
		if n > 0 && c.Next() {
			st.doc([]byte(prefix))
		}
		if n == maxTok {
			return
		}
		for _, t := range tokens {
			trec(prefix+t, n+1)
		}
	}
	trec("", 0)
}

type docState struct {
	c                                 *fw.Ctx
	valid, unmarshal, compact, indent func(args ...ugo.Object) (ugo.Object, error)
	out1, out2                        bytes.Buffer
}

func (st *docState) doc(d []byte) {
	c := st.c
	doc := append([]byte(nil), d...)
	key := fmt.Sprintf("%q", doc)
	wantValid := json.Valid(doc)
	if wantValid || (len(doc) > 1 && json.Valid(doc[:1])) || (len(doc) > 0 && strings.ContainsRune("{[\"-01tn ", rune(doc[0]))) {
		c.Nontrivial()
	}
	if wantValid {
		c.Sample(key)
	}
	// Valid
	vo, err, pan := protect(func() (ugo.Object, error) { return st.valid(ugo.Bytes(doc)) })
	if pan != nil || err != nil {
		c.Violation("D|valid|"+key, fmt.Sprintf("Valid(%s): error %v panic %v", key, err, pan), nil)
		return
	}
	if b, ok := vo.(ugo.Bool); !ok || bool(b) != wantValid {
		c.Violation("D|valid|"+key, fmt.Sprintf("Valid(%s) = %s, encoding/json says %v", key, uv.Repr(vo), wantValid), nil)
	}
	// Unmarshal
	var ref any
	refErr := json.Unmarshal(doc, &ref)
	uo, err, pan := protect(func() (ugo.Object, error) { return ujson.Unmarshal(doc) })
	if pan != nil {
		c.Violation("D|unmarshal|"+key, fmt.Sprintf("Unmarshal(%s) panics: %v", key, pan), nil)
	} else if (err == nil) != (refErr == nil) {
		c.Violation("D|unmarshal|"+key, fmt.Sprintf("Unmarshal(%s): uGO error=%v, encoding/json error=%v", key, err, refErr), nil)
	} else if err == nil {
		want, _ := ugo.ToObject(ref)
		if uv.Repr(want) != uv.Repr(uo) {
			c.Violation("D|unmarshal|"+key, fmt.Sprintf("Unmarshal(%s) = %s, encoding/json gives %s", key, uv.Repr(uo), uv.Repr(want)), nil)
		}
	}
	// module Unmarshal agrees with the Go API on acceptance
	mo, merr, mpan := protect(func() (ugo.Object, error) { return st.unmarshal(ugo.Bytes(doc)) })
	if mpan != nil || merr != nil {
		c.Violation("D|unmarshal-mod|"+key, fmt.Sprintf("module Unmarshal(%s): error %v panic %v", key, merr, mpan), nil)
	} else if _, isErr := mo.(*ugo.Error); isErr != (refErr != nil) {
		c.Violation("D|unmarshal-mod|"+key, fmt.Sprintf("module Unmarshal(%s) = %s, encoding/json error=%v", key, uv.Repr(mo), refErr), nil)
	}
	// Compact
	st.out1.Reset()
	cerr := json.Compact(&st.out1, doc)
	co, err, pan := protect(func() (ugo.Object, error) { return st.compact(ugo.Bytes(doc), ugo.False) })
	st.cmpBytes("compact", key, co, err, pan, st.out1.Bytes(), cerr)
	if cerr == nil {
		st.out2.Reset()
		json.HTMLEscape(&st.out2, st.out1.Bytes())
		co, err, pan = protect(func() (ugo.Object, error) { return st.compact(ugo.Bytes(doc), ugo.True) })
		st.cmpBytes("compact-escape", key, co, err, pan, st.out2.Bytes(), nil)
	}
	// Indent
	for _, pi := range [][2]string{{"", " "}, {"p", "\t"}, {"", ""}} {
		st.out1.Reset()
		ierr := json.Indent(&st.out1, doc, pi[0], pi[1])
		io, err, pan := protect(func() (ugo.Object, error) { return st.indent(ugo.Bytes(doc), ugo.String(pi[0]), ugo.String(pi[1])) })
		st.cmpBytes(fmt.Sprintf("indent(%q,%q)", pi[0], pi[1]), key, io, err, pan, st.out1.Bytes(), ierr)
	}
}

// raw checks Marshal of a RawMessage holding d: an error or valid JSON, never a panic.
func (st *docState) raw(d []byte) {
	doc := append([]byte(nil), d...)
	key := fmt.Sprintf("%q", doc)
	for _, v := range []ugo.Object{&ujson.RawMessage{Value: doc}, ugo.Array{&ujson.RawMessage{Value: doc}}, &ujson.EncoderOptions{Value: &ujson.RawMessage{Value: doc}, EscapeHTML: false}} {
		out, err, pan := protect(func() (ugo.Object, error) {
			b, err := ujson.Marshal(v)
			return ugo.Bytes(b), err
		})
		if pan != nil {
			st.c.Violation("D|marshal-raw|"+key, fmt.Sprintf("Marshal(RawMessage(%s)) panics: %v", key, pan), nil)
			return
		}
		if err == nil && !json.Valid(out.(ugo.Bytes)) {
			st.c.Violation("D|marshal-raw|"+key, fmt.Sprintf("Marshal(RawMessage(%s)) returns malformed JSON %q", key, trunc(out.(ugo.Bytes))), nil)
			return
		}
		if err == nil != json.Valid(doc) {
			st.c.Violation("D|marshal-raw|"+key, fmt.Sprintf("Marshal(RawMessage(%s)): error=%v but validity of the raw message is %v", key, err, json.Valid(doc)), nil)
			return
		}
	}
}

func (st *docState) cmpBytes(op, key string, got ugo.Object, err error, pan any, want []byte, wantErr error) {
	c := st.c
	if pan != nil || err != nil {
		c.Violation("D|"+op+"|"+key, fmt.Sprintf("%s(%s): error %v panic %v", op, key, err, pan), nil)
		return
	}
	_, isErr := got.(*ugo.Error)
	if isErr != (wantErr != nil) {
		c.Violation("D|"+op+"|"+key, fmt.Sprintf("%s(%s) = %s, encoding/json error=%v", op, key, short(got), wantErr), nil)
		return
	}
	if !isErr {
		b, ok := got.(ugo.Bytes)
		if !ok || !bytes.Equal(b, want) {
			c.Violation("D|"+op+"|"+key, fmt.Sprintf("%s(%s) = %s, encoding/json gives %q", op, key, short(got), want), nil)
		}
	}
}
