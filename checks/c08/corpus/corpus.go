// Package corpus holds the programs and the single-run harness body of C08. It
// is shared by the schedule explorer (bin/vsched) and by the race pass
// (bin/vrace, built with -race): both run exactly these bodies.
package corpus

import (
	"fmt"
	"sort"
	"strings"

	"github.com/ozanh/ugo"
	ugofmt "github.com/ozanh/ugo/stdlib/fmt"
	ugojson "github.com/ozanh/ugo/stdlib/json"
	ugostrings "github.com/ozanh/ugo/stdlib/strings"

	"verif/checks/c02"
	"verif/checks/c03"
	"verif/checks/c11"
	"verif/internal/uv"
)

// Prog is one program of the corpus.
type Prog struct {
	Key       string
	Src       string
	NoOpt     bool
	Dedicated bool // written for this property (explored with the larger bound)
	Spins     bool // cannot end by itself: only used with an aborting thread
}

// Modules returns a fresh module map (the builtin module's attribute values are shared Go values on purpose:
// the property says scripts' changes to them stay private to each VM).
func Modules() *ugo.ModuleMap {
	mm, _ := ModulesAttrs()
	return mm
}

// ModulesAttrs also returns the host's attribute map of the builtin module "bm".
func ModulesAttrs() (*ugo.ModuleMap, map[string]ugo.Object) {
	mm := ugo.NewModuleMap()
	mm.AddSourceModule("cnt", []byte("n := 0\nreturn {inc: func() { n++; return n }, get: func() { return n }}"))
	mm.AddSourceModule("thrower", []byte("f := func(x) {\n  if x > 1 {\n    throw error(\"too big\")\n  }\n  return 1 / x\n}\n\nreturn {f: f, wrap: func(x) { return f(x) }}"))
	mm.AddSourceModule("state", []byte("m := {k: 0}\na := [0]\nreturn {m: m, a: a, bump: func(d) { m.k += d; a[0] += d; return m.k }}"))
	attrs := map[string]ugo.Object{
		"x":   ugo.Int(1),
		"arr": ugo.Array{ugo.Int(1), ugo.Array{ugo.Int(2)}},
		"m":   ugo.Map{"k": ugo.Int(3), "inner": ugo.Map{"z": ugo.Int(4)}},
		"s":   ugo.String("abc"),
		"b":   ugo.Bytes("xyz"),
		// empty containers with spare capacity: a copy that keeps the backing array is shared by all VMs
		"e":  make(ugo.Array, 0, 8),
		"eb": make(ugo.Bytes, 0, 8),
		"em": ugo.Map{},
		"f":  &ugo.Function{Name: "f", Value: func(args ...ugo.Object) (ugo.Object, error) { return ugo.Int(len(args)), nil }},
	}
	mm.AddBuiltinModule("bm", attrs)
	// a Go module that is not a BuiltinModule: a custom Importable handing out a host object type that implements
	// Copier ("values of imported builtin (Go) modules are private to each VM")
	mm.Add("cm", cellModule{&Cell{N: 7}})
	mm.AddBuiltinModule("strings", ugostrings.Module)
	mm.AddBuiltinModule("fmt", ugofmt.Module)
	mm.AddBuiltinModule("json", ugojson.Module)
	return mm, attrs
}

// AttrsText is the canonical text of the host's attribute values.
func AttrsText(attrs map[string]ugo.Object) string {
	keys := make([]string, 0, len(attrs))
	for k := range attrs {
		keys = append(keys, k)
	}
	sort.Strings(keys)
	var sb strings.Builder
	for _, k := range keys {
		if _, isFn := attrs[k].(*ugo.Function); !isFn {
			fmt.Fprintf(&sb, "%s=%s;", k, uv.Repr(attrs[k]))
		}
	}
	return sb.String()
}

// CompileAttrs compiles p and returns the host's attribute map of "bm" as well.
func CompileAttrs(p Prog) (*ugo.Bytecode, map[string]ugo.Object, error) {
	mm, attrs := ModulesAttrs()
	bc, err := ugo.Compile([]byte(p.Src), ugo.CompilerOptions{ModuleMap: mm, NoOptimize: p.NoOpt})
	return bc, attrs, err
}

// Compile compiles a program of the corpus.
func Compile(p Prog) (*ugo.Bytecode, error) {
	return ugo.Compile([]byte(p.Src), ugo.CompilerOptions{ModuleMap: Modules(), NoOptimize: p.NoOpt})
}

// RunOne executes bc on a new VM with its own globals (which depend on the VM's index i) and returns a
// canonical text of everything the run produced: value or error (name, message, formatted stack trace),
// the probe log and the globals afterwards.
func RunOne(bc *ugo.Bytecode, i int) string {
	vm := ugo.NewVM(bc)
	vm.SetRecover(true)
	return RunOn(vm, i)
}

// RunOn is RunOne on a given VM.
func RunOn(vm *ugo.VM, i int) string {
	var log []string
	// values nested deeper than any global bound on "nesting seen so far" a broken implementation might keep per
	// process: private to this VM, built by the host
	var deepA ugo.Object = ugo.Array{ugo.Int(i)}
	for k := 0; k < 700; k++ {
		deepA = ugo.Array{deepA}
	}
	var deepM ugo.Object = ugo.Map{"k": ugo.Int(i)}
	for k := 0; k < 300; k++ {
		deepM = ugo.Map{"k": deepM}
	}
	g := ugo.Map{
		"DEEPA": deepA, "DEEPM": deepM,
		"G": ugo.Int(100 * (i + 1)),
		"L": &ugo.Function{Name: "L", Value: func(args ...ugo.Object) (ugo.Object, error) {
			parts := make([]string, len(args))
			for k, a := range args {
				parts[k] = uv.Repr(a)
			}
			log = append(log, strings.Join(parts, ","))
			if len(args) == 0 {
				return ugo.Undefined, nil
			}
			return args[len(args)-1], nil
		}},
		// apply(f, args...) runs f on a pooled child VM, twice
		"apply": &ugo.Function{Name: "apply", ValueEx: func(c ugo.Call) (ugo.Object, error) {
			inv := ugo.NewInvoker(c.VM(), c.Get(0))
			inv.Acquire()
			defer inv.Release()
			args := make([]ugo.Object, 0, c.Len())
			for k := 1; k < c.Len(); k++ {
				args = append(args, c.Get(k))
			}
			if _, err := inv.Invoke(args...); err != nil {
				return nil, err
			}
			return inv.Invoke(args...)
		}},
		// call(f, args...) runs f on a child VM that is not pooled
		"call": &ugo.Function{Name: "call", ValueEx: func(c ugo.Call) (ugo.Object, error) {
			inv := ugo.NewInvoker(c.VM(), c.Get(0))
			args := make([]ugo.Object, 0, c.Len())
			for k := 1; k < c.Len(); k++ {
				args = append(args, c.Get(k))
			}
			return inv.Invoke(args...)
		}},
	}
	v, err, pan := uv.Protect(func() (ugo.Object, error) { return vm.Run(g) })
	var sb strings.Builder
	if pan != nil {
		fmt.Fprintf(&sb, "PANIC %v", pan)
	} else {
		sb.WriteString(uv.Outcome(v, err))
		if err != nil {
			fmt.Fprintf(&sb, " trace{%+v}", err)
		}
	}
	fmt.Fprintf(&sb, " log[%s]", strings.Join(log, ";"))
	keys := make([]string, 0, len(g))
	for k := range g {
		if _, isFn := g[k].(*ugo.Function); !isFn {
			keys = append(keys, k)
		}
	}
	sort.Strings(keys)
	for _, k := range keys {
		fmt.Fprintf(&sb, " %s=%s", k, uv.Repr(g[k]))
	}
	return sb.String()
}

var dedicated = []struct{ key, src string }{
	{"closures over a shared constant function", `
global (G, L)
mk := func(n) { return func(x) { n += x; return n } }
a := mk(G); b := mk(10)
return [a(1), b(2), a(3), b(G)]`},
	{"constant function literals called and stored", `
global (G, L)
fs := []
for i := 0; i < 3; i++ { fs = append(fs, func(x) { return x + i + G }) }
r := []
for f in fs { r = append(r, f(1)) }
return r`},
	{"host object of a custom importable module is mutated", `
global (G, L)
c := import("cm")
before := c.n
c.n = c.n + G
f := func() { return import("cm").n }
return [before, c.n, f()]`},
	{"builtin module values are mutated", `
global (G, L)
bm := import("bm")
bm.x = bm.x + G
bm.arr[0] = G
bm.arr[1][0] = G + 1
bm.m.k = G + 2
bm.m.inner.z = G + 3
bm.m.added = G
L(bm.x, bm.arr, bm.m)
bm2 := import("bm")
return [bm.x, bm.arr, bm.m, bm.s, string(bm.b), bm.f(1, 2), bm2.x]`},
	{"empty builtin module containers are appended to", `
global (G, L)
bm := import("bm")
e1 := append(bm.e, G)
L(e1)
eb1 := append(bm.eb, G % 256)
bm.em.k = G
e2 := append(bm.e, G + 1, G + 2)
return [e1, e2, string(eb1), bm.em, len(bm.e), len(bm.eb)]`},
	{"builtin module imported inside a function and mutated", `
global (G, L)
f := func() { bm := import("bm"); bm.m.k += G; bm.arr[1][0] += 1; return [bm.m.k, bm.arr] }
return [f(), f()]`},
	{"builtin module: the import compiled first is executed second", `
global (G, L)
f := func() { bm := import("bm"); return [bm.x, bm.m.k, bm.arr] }
bm := import("bm")
bm.x = G; bm.m.k = G + 1; bm.arr[0] = G + 2
g := func() { return import("bm").m }
return [f(), g().k, bm.x]`},
	{"throw statements in the main function and in constant functions", `
global (G, L)
r := []
thr := func(x) { if x > 1 { throw "big" }; throw error("small") }
try { throw "main " + string(G) } catch e { r = append(r, string(e)) }
try { thr(G) } catch e { r = append(r, string(e)) }
try { thr(0) } catch e { r = append(r, string(e)) }
fmt := import("fmt")
try { thr(2) } catch e { r = append(r, fmt.Sprintf("%+v", e)) }
if G > 100 { throw "last " + string(G) }
return r`},
	{"deeply nested private values are turned into text", `
global (G, L, DEEPA, DEEPM)
s := string(DEEPA); t := string(DEEPM)
return [len(s), len(t), s[698:706], G]`},
	{"source modules with state", `
global (G, L)
c := import("cnt"); s := import("state")
c.inc(); c.inc()
s.bump(G); s.m.k += 1; s.a[0] += 2
c2 := import("cnt")
return [c.get(), c2.inc(), s.m, s.a, s.bump(1)]`},
	{"uncaught error thrown in a module function (two source files in the trace)", `
global (G, L)
t := import("thrower")
L(t.f(1))
return t.wrap(G)`},
	{"runtime error in a module function, caught and formatted with its stack trace", `
global (G, L)
t := import("thrower"); fmt := import("fmt")
out := []
try { t.wrap(0) } catch e { out = append(out, fmt.Sprintf("%+v", e)) }
try { t.f(2) } catch e { out = append(out, fmt.Sprintf("%+v", e), string(e)) }
try { x := [1][G] } catch e { out = append(out, fmt.Sprintf("%+v", e)) }
return out`},
	{"error in main after an error in a module (position cache of the file set)", `
global (G, L)
t := import("thrower")
try { t.f(5) } catch e { L(sprintf("%+v", e)) }
return 1 / (G - G)`},
	{"callbacks on pooled child VMs (host function apply)", `
global (G, L, apply, call)
n := G
f := func(d) { n += d; return n }
return [apply(f, 1), apply(f, 2), call(f, 3), n]`},
	{"callbacks on pooled child VMs through the strings module", `
global (G, L)
strings := import("strings")
k := G % 7
return [strings.Map(func(c) { return c + k }, "abc"), strings.IndexFunc("hello", func(c) { return c == 'l' }), strings.TrimFunc("xxhixx", func(c) { return c == 'x' })]`},
	{"error inside a callback on a child VM", `
global (G, L, apply, call)
f := func(d) { if d > 1 { throw error(sprintf("bad %d", d + G)) }; return d }
out := [apply(f, 1)]
try { apply(f, 2) } catch e { out = append(out, string(e)) }
try { call(f, 3) } catch e { out = append(out, sprintf("%+v", e)) }
return out`},
	{"nested callbacks (callback whose function calls back again)", `
global (G, L, apply, call)
inner := func(x) { return x * 2 }
outer := func(x) { return apply(inner, x + G) + call(inner, 1) }
return [apply(outer, 1), call(outer, 2)]`},
	{"try/finally and thrown values", `
global (G, L)
f := func(x) { try { if x { throw x }; return 1 } catch e { L(e); return 2 } finally { L("fin", x) } }
return [f(0), f(G), f("s")]`},
	{"json and fmt modules on per-VM data", `
global (G, L)
json := import("json"); fmt := import("fmt")
v := {a: [G, 1.5, "x"], b: {c: true}}
s := string(json.Marshal(v))
return [s, json.Unmarshal(bytes(s)), fmt.Sprintf("%v|%d", v.a, G)]`},
	{"destructuring, for-in over a module map, ternaries", `
global (G, L)
bm := import("bm")
ks := []
for k, v in bm.m { ks = append(ks, k) }
a, b := [G, len(ks)]
return [a > 100 ? "big" : "small", b, sort(ks)]`},
	{"globals are written", `
global (G, L, H)
H = [G, G + 1]
G = G * 2
return globals().H`},
	{"string, bytes and char constants", `
global (G, L)
s := "constant string"; b := bytes("constant bytes"); c := 'x'
b[0] = 67
return [s + string(G), string(b), c + 1, s[1:4]]`},
	{"recursion and variadic calls", `
global (G, L)
var fib
fib = func(n) { return n < 2 ? n : fib(n-1) + fib(n-2) }
sum := func(...xs) { t := 0; for x in xs { t += x }; return t }
return [fib(7), sum(1, 2, G), sum(...[1, 2])]`},
}

// AbortPrograms are run by two VMs while a third thread aborts VM 0 (G == 100); VM 1 must not notice.
var AbortPrograms = []Prog{
	{Key: "abort-isolation: pooled callbacks, all terminating", Dedicated: true, Src: `
global (G, L, apply, call)
f := func(d) { for i := 0; i < 2; i++ { d += i }; return d + G }
return [apply(f, 1), apply(f, 3)]`},
	{Key: "abort-isolation: the callback of VM 0 spins until aborted", Dedicated: true, Src: `
global (G, L, apply, call)
f := func(d) { if G == 100 { for {} }; return d + G }
return [apply(f, 1), apply(f, 2)]`},
	{Key: "abort-isolation: VM 0 spins after its callbacks", Dedicated: true, Src: `
global (G, L, apply, call)
f := func(d) { return d + G }
r := [apply(f, 1), apply(f, 2)]
if G == 100 { for {} }
return r`},
	{Key: "abort-isolation: strings module callbacks", Dedicated: true, Src: `
global (G, L)
strings := import("strings")
k := G % 7
r := strings.Map(func(c) { return c + k }, "ab")
if G == 100 { for {} }
return r`},
}

// Programs yields the corpus: the dedicated programs first, then the simplest programs of other checks' families.
func Programs(thorough bool) []Prog {
	var out []Prog
	for _, d := range dedicated {
		out = append(out, Prog{Key: "dedicated: " + d.key, Src: d.src, Dedicated: true})
		out = append(out, Prog{Key: "dedicated (no optimizer): " + d.key, Src: d.src, Dedicated: true, NoOpt: true})
	}
	limit := 150
	if thorough {
		limit = 1500
	}
	add := func(fam string, every int) func(src string) {
		n, taken := 0, 0
		return func(src string) {
			if strings.Contains(src, "5000") {
				return // deep recursion only costs time here
			}
			n++
			if (n-1)%every != 0 || taken >= limit {
				return
			}
			taken++
			out = append(out, Prog{Key: fmt.Sprintf("%s #%d", fam, n), Src: src})
		}
	}
	c02.Corpus(false, add("C02 family", 37))
	c03.Corpus(1, add("C03 family", 211))
	c11.JumpPrograms(false, add("C11 jump grammar", 53))
	return out
}

// Cell is a mutable host object type outside ugo's own containers; it implements ugo.Copier.
type Cell struct {
	ugo.ObjectImpl
	N int64
}

func (c *Cell) TypeName() string { return "cell" }
func (c *Cell) String() string   { return fmt.Sprintf("cell(%d)", c.N) }
func (c *Cell) Copy() ugo.Object { return &Cell{N: c.N} }
func (c *Cell) IndexGet(ugo.Object) (ugo.Object, error) {
	return ugo.Int(c.N), nil
}
func (c *Cell) IndexSet(_, v ugo.Object) error {
	if i, ok := v.(ugo.Int); ok {
		c.N = int64(i)
	}
	return nil
}

type cellModule struct{ cell *Cell }

func (m cellModule) Import(string) (any, error) { return m.cell, nil }
