//go:build vsched

// Package c08 decides C08: many VMs may run one Bytecode concurrently.
//
// Two exhaustive parts over one corpus of programs and one set of harness bodies
// (package corpus): (1) schedule exploration under the controlled scheduler -
// every interleaving of N VMs up to a preemption bound at every instruction
// poll, lock, pool and atomic operation, value-level oracle "exactly what it
// returns alone"; (2) the race pass - the same bodies in a -race build in which
// the two runs are concurrent for the detector although they execute one after
// the other (hidden hand-off), so that every conflicting unsynchronised pair of
// accesses of a program is reported deterministically.
package c08

import (
	"bufio"
	"fmt"
	"os"
	"os/exec"
	"path/filepath"
	"regexp"
	"strconv"
	"strings"

	"github.com/ozanh/ugo"
	"github.com/ozanh/ugo/vshim/vsched"

	"verif/checks/c08/corpus"
	"verif/internal/bcv"
	"verif/internal/fw"
)

func init() {
	fw.Register(&fw.Check{
		ID:    "C08",
		Level: "model_checking",
		Rule: "corpus = 19 dedicated programs (closures over shared constant functions, builtin-module values mutated at every depth, source modules with state, errors thrown across two source files and formatted with stack traces in the script and by the host, callbacks on pooled and unpooled child VMs through a host function and through the real strings module, nested callbacks, errors in callbacks, json/fmt modules, globals), each with optimizer on and off, " +
			"plus every 37th/211th/53rd program of the C02/C03/C11 enumerations; each VM has its own globals (G = 100*(i+1), so interference changes values). " +
			"Family schedules: N = 2 (thorough also 3) VMs run one Bytecode on N threads under the controlled scheduler (build of /repo's tree with sync/sync.Pool/atomic rewritten to the scheduler: every instruction's abort poll, every lock and every pool Get/Put is a scheduling point, pool Get chooses recycled|new); ALL schedules with <= 2 preemptions for dedicated programs and <= 1 for the others (thorough 3 / 2) are executed. " +
			"Per execution: every run's canonical outcome (value or error name+message+formatted stack trace, probe log, globals) equals the outcome of the same VM index run alone; structural fingerprint of the Bytecode unchanged; the host's builtin-module attribute values unchanged; no panic, no deadlock; afterwards a run alone still gives the same outcome. " +
			"Family abort-isolation: two VMs + a thread aborting VM 0 at every point (VM 0 possibly spinning inside a pooled child VM); VM 1 and a later third run must equal their solo outcome, VM 0 must end with its solo outcome or VMAbortedError. " +
			"Family race: for every program the -race build (bin/vrace) runs VM0 then VM1, VM1 then VM0 (hand-off hidden from the detector with runtime.RaceDisable, sync.Pools emptied in between so that no incidental synchronisation orders the runs) and both free-running; any report is a violation. " +
			"states = distinct scheduler states, transitions = executed scheduling points, traces = executions; non-trivial = programs in which the VMs touched a common pool or lock object or whose outcomes depend on G",
		Run:            run08,
		Shards:         16,
		MarkCases:      true,
		WorkerEnv:      []string{"GOMAXPROCS=1"},
		QuickBudget:    0,
		ThoroughBudget: 0,
		Assumptions: []string{
			"the race detector's happens-before analysis (4 shadow cells per 8-byte word) - a report is always a real race; a conflicting pair is reported when both accesses execute",
			"sequential consistency for the value-level exploration; <= 3 VMs; preemption bounds as stated",
		},
	})
}

func verifDir() string {
	exe, err := os.Executable()
	if err != nil {
		return "/verif"
	}
	return filepath.Dir(filepath.Dir(exe))
}

func run08(c *fw.Ctx) {
	progs := corpus.Programs(c.Thorough())
	// preemption bounds: {bound, fine} - the first `fine` preemptions may fall on any instruction poll, the others only
	// on locks, pool operations and stores
	type bnd struct{ bound, fine int }
	ded, gen, ded3 := bnd{1, 1}, bnd{1, 1}, bnd{0, 0}
	abrt := []bnd{{1, 1}}
	if c.Thorough() {
		ded, gen, ded3 = bnd{2, 1}, bnd{2, 1}, bnd{1, 1}
		abrt = []bnd{{1, 1}, {2, 0}}
	}
	if v := os.Getenv("C08_BOUND"); v != "" {
		fmt.Sscan(v, &ded.bound)
		ded.fine = ded.bound
	}
	c.Family("schedules", fmt.Sprintf("N=2 VMs: all schedules with <= %d preemptions of which <= %d at instruction polls (dedicated programs) / <= %d, %d (others)%s", ded.bound, ded.fine, gen.bound, gen.fine,
		map[bool]string{true: "; N=3 for dedicated programs with <= 1 preemption", false: ""}[c.Thorough()]))
	for _, p := range progs {
		if !c.Next() {
			continue
		}
		if c.Skip(p.Key) {
			continue
		}
		c.Mark(p.Key)
		b := gen
		if p.Dedicated {
			b = ded
		}
		schedules(c, p, 2, b.bound, b.fine)
		if ded3.bound > 0 && p.Dedicated {
			schedules(c, p, 3, ded3.bound, ded3.fine)
		}
	}
	c.Family("abort-isolation", fmt.Sprintf("2 VMs + 1 aborting thread: all schedules with {preemptions, of which at instruction polls} <= %v", abrt))
	for _, p := range corpus.AbortPrograms {
		for _, noopt := range []bool{false, true} {
			p := p
			p.NoOpt = noopt
			if noopt {
				p.Key += " (no optimizer)"
			}
			if !c.Next() {
				continue
			}
			if c.Skip(p.Key) {
				continue
			}
			c.Mark(p.Key)
			for _, b := range abrt {
				abortIsolation(c, p, b.bound, b.fine)
			}
		}
	}
	c.Family("race", "every program: VM0;VM1, VM1;VM0 (hidden hand-off) and free-running under the race detector")
	var mine []int
	for i := range progs {
		if c.Next() && !c.Skip(progs[i].Key+" | race") {
			mine = append(mine, i)
		}
	}
	racePass(c, progs, mine)
}

// ---- schedule exploration -----------------------------------------------------------

type failure struct {
	what    string
	preempt int
	choices []int
	trace   string
	count   int64
}

func report(c *fw.Ctx, key string, fails map[string]*failure, extra map[string]any) {
	for class, f := range fails {
		d := map[string]any{"failing_schedules": f.count, "preemptions_of_shown_schedule": f.preempt, "choices": f.choices, "trace": f.trace}
		for k, v := range extra {
			d[k] = v
		}
		c.Violation(key+" | "+class, f.what, d)
	}
}

func note(fails map[string]*failure, class, what string, e *vsched.Exec) {
	f := fails[class]
	p := e.Preemptions()
	if f == nil || p < f.preempt {
		n := int64(0)
		if f != nil {
			n = f.count
		}
		f = &failure{what: what, preempt: p, choices: e.Choices(), trace: trunc(e.Trace(), 6000), count: n}
		fails[class] = f
	}
	f.count++
}

func trunc(s string, n int) string {
	if len(s) > n {
		return s[:n] + " ..."
	}
	return s
}

func schedules(c *fw.Ctx, p corpus.Prog, n, bound, fine int) {
	bc, attrs, err := corpus.CompileAttrs(p)
	if err != nil {
		c.Count("programs_not_compiling", 1)
		return
	}
	fp := bcv.Fingerprint(bc)
	deep := bcv.DeepFingerprint(bc)
	at := corpus.AttrsText(attrs)
	solo := make([]string, n)
	for i := range solo {
		solo[i] = corpus.RunOne(bc, i)
		if again := corpus.RunOne(bc, i); again != solo[i] {
			c.Violation(p.Key+" | unstable", fmt.Sprintf("two runs alone differ: %q vs %q", solo[i], again), map[string]any{"program": p.Src})
			return
		}
	}
	dependsOnG := n > 1 && solo[0] != solo[1]
	out := make([]string, n)
	body := func() {
		for i := 0; i < n; i++ {
			i := i
			out[i] = "<not finished>"
			vsched.Go(fmt.Sprintf("vm%d", i), func() { out[i] = corpus.RunOne(bc, i) })
		}
	}
	cfg := vsched.Config{Quantum: 0, Horizon: 200000, FineBound: fine, Coarse: true}
	key := fmt.Sprintf("%s | N=%d", p.Key, n)
	e1 := vsched.Run(cfg, nil, body)
	e2 := vsched.Run(cfg, e1.Choices(), body)
	if e1.Trace() != e2.Trace() || e1.Diverged != "" {
		c.Infra("%s: replaying the default schedule gives a different event log (%s)", key, e1.Diverged)
		return
	}
	stats := &vsched.Stats{StateHashes: map[uint64]bool{}}
	fails := map[string]*failure{}
	shared := false
	vsched.Explore(cfg, bound, body, func(e *vsched.Exec) bool {
		if e.Diverged != "" {
			c.Infra("%s: %s", key, e.Diverged)
			return false
		}
		switch {
		case e.Panic != "":
			note(fails, "panic", e.Panic, e)
		case e.Deadlock:
			note(fails, "deadlock", "deadlock: no VM can continue", e)
		case e.Cut:
			note(fails, "no-end", "execution did not end within the horizon", e)
		default:
			for i := range out {
				if out[i] != solo[i] {
					note(fails, "differs-from-solo", fmt.Sprintf("VM %d returns %s; alone it returns %s", i, trunc(out[i], 600), trunc(solo[i], 600)), e)
					break
				}
			}
			if g := bcv.Fingerprint(bc); g != fp {
				note(fails, "bytecode-modified", "the shared Bytecode was modified by a run", e)
			}
			if g := corpus.AttrsText(attrs); g != at {
				note(fails, "host-module-values-modified", fmt.Sprintf("the host's builtin-module values changed: %s, before %s", g, at), e)
			}
		}
		if !shared && e.SharedObjects() > 0 {
			shared = true
		}
		return true
	}, stats, func() bool { return !c.Expired() })
	for i := range solo {
		if again := corpus.RunOne(bc, i); again != solo[i] {
			fails["poisoned"] = &failure{what: fmt.Sprintf("after the concurrent runs, VM %d alone returns %s; before %s", i, trunc(again, 600), trunc(solo[i], 600))}
		}
	}
	// everything reachable from the Bytecode, unexported fields included: a cache filled by the first run that
	// needs it is written while other VMs read it
	if g := bcv.DeepFingerprint(bc); g != deep {
		fails["bytecode-modified-deep"] = &failure{what: "running wrote to something reachable from the shared Bytecode (an unexported field: a cache?): " + firstDiff(deep, g)}
	}
	c.AddEval(stats.Executions)
	c.AddTraces(stats.Executions)
	c.AddTransitions(stats.Points)
	c.AddStates(int64(len(stats.StateHashes)))
	c.Count("schedules", stats.Executions)
	c.Count("programs_explored", 1)
	if shared || dependsOnG {
		c.Nontrivial()
	}
	if shared {
		c.Count("programs_whose_VMs_touch_a_common_sync_object", 1)
	}
	if dependsOnG {
		c.Count("programs_whose_outcome_depends_on_the_VM", 1)
	}
	if len(fails) == 0 {
		c.Outcome("all schedules equal solo")
	} else {
		c.Outcome("VIOLATING")
	}
	if p.Dedicated && n == 2 {
		c.Sample(map[string]any{"program": p.Key, "schedules": stats.Executions, "max_points": stats.MaxPoints, "preemption_bound": bound, "solo_outcome_vm0": trunc(solo[0], 300)})
	}
	report(c, key, fails, map[string]any{"program": p.Src, "of_schedules": stats.Executions, "preemption_bound": bound})
}

func abortIsolation(c *fw.Ctx, p corpus.Prog, bound, fine int) {
	bc, err := corpus.Compile(p)
	if err != nil {
		c.Infra("abort program does not compile: %v", err)
		return
	}
	fp := bcv.Fingerprint(bc)
	// solo outcome of VM 1 (VM 0 may spin when alone)
	solo1 := corpus.RunOne(bc, 1)
	var out0, out1, out2 string
	body := func() {
		out0, out1, out2 = "<not finished>", "<not finished>", "<not finished>"
		vm0 := ugo.NewVM(bc).SetRecover(true)
		vsched.Go("vm0", func() { out0 = corpus.RunOn(vm0, 0) })
		vsched.Go("vm1", func() {
			out1 = corpus.RunOne(bc, 1)
			out2 = corpus.RunOne(bc, 1)
		})
		vsched.Go("abort", func() {
			vsched.Note("abort-call", 0)
			vm0.Abort()
			vsched.Note("abort-ret", 0)
		})
	}
	stop := func(e *vsched.Exec) bool {
		// cut when the aborter and vm1 are done and vm0 polled 60 more times
		last := -1
		for i, ev := range e.Events {
			if ev.Kind == vsched.KNote && ev.Label == "abort-ret" {
				last = i
			}
		}
		if last < 0 || !e.Done(1) {
			return false
		}
		n := 0
		for _, ev := range e.Events[last:] {
			if ev.Kind == vsched.KLoad && ev.Thread == 0 {
				n++
			}
		}
		return n > 62
	}
	cfg := vsched.Config{Quantum: 12, Horizon: 20000, Stop: stop, FineBound: fine, Coarse: true}
	stats := &vsched.Stats{StateHashes: map[uint64]bool{}}
	fails := map[string]*failure{}
	vsched.Explore(cfg, bound, body, func(e *vsched.Exec) bool {
		if e.Diverged != "" {
			c.Infra("%s: %s", p.Key, e.Diverged)
			return false
		}
		switch {
		case e.Panic != "":
			note(fails, "panic", e.Panic, e)
		case e.Deadlock:
			note(fails, "deadlock", "deadlock", e)
		default:
			if out1 != solo1 && e.Done(1) {
				note(fails, "differs-from-solo", fmt.Sprintf("VM 1 returns %s while VM 0 is aborted; alone it returns %s", trunc(out1, 500), trunc(solo1, 500)), e)
			} else if out2 != solo1 && e.Done(1) {
				note(fails, "later-run-differs", fmt.Sprintf("a later run returns %s; alone it returns %s", trunc(out2, 500), trunc(solo1, 500)), e)
			}
			if e.Cut {
				// vm0 still running 60 polls after Abort returned: C09's business, counted only
				c.Count("abort_isolation_executions_cut", 1)
			} else if !strings.Contains(out0, "VMAbortedError") && !strings.HasPrefix(out0, "OK ") {
				note(fails, "vm0-outcome", fmt.Sprintf("the aborted VM 0 ends with %s", trunc(out0, 500)), e)
			}
			if g := bcv.Fingerprint(bc); g != fp {
				note(fails, "bytecode-modified", "the shared Bytecode was modified by a run", e)
			}
		}
		return true
	}, stats, func() bool { return !c.Expired() })
	if again := corpus.RunOne(bc, 1); again != solo1 {
		fails["poisoned"] = &failure{what: fmt.Sprintf("after the exploration, VM 1 alone returns %s; before %s", trunc(again, 500), trunc(solo1, 500))}
	}
	c.AddEval(stats.Executions)
	c.AddTraces(stats.Executions)
	c.AddTransitions(stats.Points)
	c.AddStates(int64(len(stats.StateHashes)))
	c.Count("schedules", stats.Executions)
	c.Nontrivial()
	if len(fails) == 0 {
		c.Outcome("abort of VM 0 invisible to VM 1")
	} else {
		c.Outcome("VIOLATING")
	}
	c.Sample(map[string]any{"program": p.Key, "schedules": stats.Executions, "max_points": stats.MaxPoints, "preemption_bound": bound})
	report(c, p.Key, fails, map[string]any{"program": p.Src, "of_schedules": stats.Executions, "preemption_bound": bound})
}

// ---- race pass --------------------------------------------------------------------------

var frameRe = regexp.MustCompile(`^\s+([\w./()*\[\]-]+)\(\)$`)

// raceSummary extracts the two access kinds and their innermost functions from a detector report.
func raceSummary(report string) (string, string) {
	var heads, tops []string
	sc := bufio.NewScanner(strings.NewReader(report))
	want := false
	for sc.Scan() {
		l := sc.Text()
		switch {
		case strings.HasPrefix(l, "Read at"), strings.HasPrefix(l, "Write at"), strings.HasPrefix(l, "Previous read at"), strings.HasPrefix(l, "Previous write at"):
			f := strings.Fields(l)
			k := f[0]
			if k == "Previous" {
				k = f[1]
			}
			heads = append(heads, strings.ToLower(k))
			want = true
		case want:
			if m := frameRe.FindStringSubmatch(l); m != nil {
				tops = append(tops, m[1])
				want = false
			}
		}
	}
	for len(heads) < 2 {
		heads = append(heads, "?")
	}
	for len(tops) < 2 {
		tops = append(tops, "?")
	}
	return fmt.Sprintf("%s in %s vs %s in %s", heads[0], tops[0], heads[1], tops[1]), report
}

func vrace(args ...string) (string, string, int) {
	cmd := exec.Command(filepath.Join(verifDir(), "bin", "vrace"), args...)
	cmd.Env = append(os.Environ(), "GORACE=halt_on_error=1 exitcode=66")
	var so, se strings.Builder
	cmd.Stdout, cmd.Stderr = &so, &se
	err := cmd.Run()
	code := 0
	if err != nil {
		code = -1
		if ee, ok := err.(*exec.ExitError); ok {
			code = ee.ExitCode()
		}
	}
	return so.String(), se.String(), code
}

func racePass(c *fw.Ctx, progs []corpus.Prog, mine []int) {
	if c.Shard == 0 || c.NShards == 1 {
		// self-test of the un-blinded detector: a serialised racy pair must be reported, a locked pair must not
		_, se, code := vrace("selftest", "racy")
		if code != 66 || !strings.Contains(se, "DATA RACE") {
			c.Infra("race pass self-test: the racy pair was not reported (exit %d)", code)
			return
		}
		so, se, code := vrace("selftest", "clean")
		if code != 0 || !strings.Contains(so, "SELFTEST-END") {
			c.Infra("race pass self-test: the race-free pair was reported or failed (exit %d): %s", code, trunc(se, 400))
			return
		}
		c.Count("race_selftests_passed", 2)
	}
	tier := "quick"
	if c.Thorough() {
		tier = "thorough"
	}
	for len(mine) > 0 {
		if c.Expired() {
			return
		}
		batch := mine
		if len(batch) > 40 {
			batch = batch[:40]
		}
		ids := make([]string, len(batch))
		for i, x := range batch {
			ids[i] = strconv.Itoa(x)
		}
		c.Mark(fmt.Sprintf("race batch starting at program %d", batch[0]))
		so, se, code := vrace("run", tier, strings.Join(ids, ","))
		done := 0
		for _, l := range strings.Split(so, "\n") {
			f := strings.Fields(l)
			if len(f) >= 2 && f[0] == "DONE" {
				done++
				c.AddEval(3)
				c.Count("programs_under_the_race_detector", 1)
			}
			if len(f) >= 3 && f[0] == "DIFF" {
				i, _ := strconv.Atoi(f[1])
				msg, _ := strconv.Unquote(strings.Join(f[2:], " "))
				c.Violation(progs[i].Key+" | race-pass differs-from-solo", "in the race build: "+trunc(msg, 1200), map[string]any{"program": progs[i].Src})
			}
		}
		if done >= len(batch) && code == 0 {
			mine = mine[len(batch):]
			continue
		}
		// the program after the last DONE failed
		bad := batch[done]
		p := progs[bad]
		if code == 66 {
			sum, full := raceSummary(se)
			c.Count("race_reports", 1)
			c.Violation(p.Key+" | data race: "+sum, "data race between two VMs running one Bytecode: "+sum, map[string]any{"program": p.Src, "report": trunc(full, 6000),
				"replay": fmt.Sprintf("GORACE='halt_on_error=1 exitcode=66' ./bin/vrace run %s %d", tier, bad)})
		} else {
			c.Violation(p.Key+" | race-pass crash", fmt.Sprintf("the race build exits with %d on this program: %s", code, trunc(se, 1500)), map[string]any{"program": p.Src})
		}
		mine = mine[done+1:]
	}
}

// firstDiff shows where two renderings part.
func firstDiff(a, b string) string {
	i := 0
	for i < len(a) && i < len(b) && a[i] == b[i] {
		i++
	}
	lo := i - 120
	if lo < 0 {
		lo = 0
	}
	cut := func(s string) string {
		hi := i + 120
		if hi > len(s) {
			hi = len(s)
		}
		if lo > len(s) {
			return ""
		}
		return s[lo:hi]
	}
	return fmt.Sprintf("before ...%s... after ...%s...", cut(a), cut(b))
}
