// Package c13 decides C13: a disabled builtin cannot be reached by any script.
package c13

import (
	"context"
	"errors"
	"fmt"
	"strings"

	"github.com/ozanh/ugo"

	"verif/checks/c01"
	"verif/internal/fw"
	"verif/internal/run"
)

func init() {
	fw.Register(&fw.Check{
		ID:    "C13",
		Level: "exploration",
		Rule: "disabled sets = every subset of {int, len, append, printf} that contains the referenced name N (8 per N) ; scripts = every binding form of C01-G1 (24 forms, 3 of them hide the binding from the use site) and the undeclared case " +
			"x N x 17 use sites x use expressions (with and without a literal const in scope, which makes the compiler re-run the optimizer); module family = a source module referencing N imported from 6 kinds of site; " +
			"Eval family = sessions of <= 3 fragments in which the reference, a shadowing declaration and a DisableBuiltin call by the embedder occur in different fragments; all with optimizer on, off and at budget 1. " +
			"Oracle: a reference to N that the script did not declare in scope is a compile error; any produced Bytecode contains no GETBUILTIN of a disabled index (:makeArray exempt) and, with the builtin objects wrapped by call recorders (which also fire inside the optimizer's private VM), " +
			"neither compiling nor running calls a disabled builtin. non-trivial = N occurs in the script and is disabled",
		Run: run13,
	})
}

var names = []string{"int", "len", "append", "printf"}

var calls = map[string]int{}

func wrapBuiltins() {
	for _, n := range names {
		n := n
		idx := ugo.BuiltinsMap[n]
		orig := ugo.BuiltinObjects[idx].(*ugo.BuiltinFunction)
		w := &ugo.BuiltinFunction{Name: orig.Name}
		if orig.Value != nil {
			w.Value = func(args ...ugo.Object) (ugo.Object, error) { calls[n]++; return orig.Value(args...) }
		}
		if orig.ValueEx != nil {
			w.ValueEx = func(c ugo.Call) (ugo.Object, error) { calls[n]++; return orig.ValueEx(c) }
		}
		ugo.BuiltinObjects[idx] = w
	}
}

func resetCalls() {
	for k := range calls {
		delete(calls, k)
	}
}

// tableSetup, when set, prepares the symbol table before the names are disabled (family "predeclared").
var tableSetup func(st *ugo.SymbolTable)

func symtab(disabled []string) *ugo.SymbolTable {
	st := ugo.NewSymbolTable()
	if tableSetup != nil {
		tableSetup(st)
	}
	st.DisableBuiltin(disabled...)
	return st
}

// scan returns the name of a disabled builtin referenced by a GETBUILTIN in bc ("" if none).
func scan(bc *ugo.Bytecode, disabled []string) string {
	dis := map[int]string{}
	for _, d := range disabled {
		dis[int(ugo.BuiltinsMap[d])] = d
	}
	found := ""
	check := func(f *ugo.CompiledFunction) {
		ugo.IterateInstructions(f.Instructions, func(_ int, op ugo.Opcode, operands []int, _ int) bool {
			if op == ugo.OpGetBuiltin {
				if n, ok := dis[operands[0]]; ok {
					found = n
					return false
				}
			}
			return true
		})
	}
	check(bc.Main)
	for _, c := range bc.Constants {
		if f, ok := c.(*ugo.CompiledFunction); ok {
			check(f)
		}
	}
	return found
}

type variant struct {
	name string
	opt  func() run.Options
}

var variants = []variant{
	{"opt", func() run.Options { return run.Options{} }},
	{"noopt", func() run.Options { return run.Options{NoOptimize: true} }},
	{"limit1", func() run.Options { return run.Options{OptLimit: 1} }},
}

// oneScript compiles and (if it compiles) runs src with the disabled set; mustFail says the reference is undeclared.
func oneScript(c *fw.Ctx, key, src string, disabled []string, mustFail bool, args []ugo.Object, globals ugo.Map, modules map[string]string) {
	if c.Skip(key) {
		return
	}
	for _, v := range variants {
		resetCalls()
		opt := v.opt()
		opt.SymbolTable = symtab(disabled)
		opt.Args, opt.Globals, opt.Modules = args, globals, modules
		bc, err, pan := run.Compile(src, opt)
		c.AddEval(1)
		det := map[string]any{"program": src, "modules": modules, "disabled": disabled, "config": v.name}
		k := key + "|" + v.name
		for _, d := range disabled {
			if calls[d] > 0 {
				c.Violation(k, fmt.Sprintf("compiling called the disabled builtin %q (%s)", d, v.name), det)
				return
			}
		}
		if pan != "" {
			c.Violation(k, "compiler panics: "+pan, det)
			return
		}
		if mustFail {
			if err == nil {
				c.Violation(k, fmt.Sprintf("a reference to the disabled builtin compiles (%s)", v.name), det)
				return
			}
			if !strings.Contains(err.Error(), "unresolved reference") {
				// some other compile error first (e.g. the optimizer); still not reachable: fine, but remember it
				c.Count("other_compile_error", 1)
			}
			continue
		}
		if err != nil {
			// The optimizer may refuse a script by reporting the runtime error of one of its constant sub-expressions
			// (C01's business), e.g. the call of a name the script declared as the constant 5, also where a run would
			// catch that error. A refusal produces no code, and the compilation did not call the disabled builtin
			// (checked above), so the builtin was not reached; only a refusal that still treats the declared name as
			// the missing builtin ("unresolved reference") is the symbol table getting in the script's way.
			var oe *ugo.OptimizerError
			if errors.As(err, &oe) && !strings.Contains(err.Error(), "unresolved reference") && v.name != "noopt" {
				c.Count("refused_by_optimizer_with_a_runtime_error", 1)
				continue
			}
			c.Violation(k, fmt.Sprintf("the script declares the name itself but does not compile (%s): %v", v.name, err), det)
			return
		}
		if n := scan(bc, disabled); n != "" {
			c.Violation(k, fmt.Sprintf("Bytecode references the disabled builtin %q (%s)", n, v.name), det)
			return
		}
		resetCalls()
		o := run.Bytecode(bc, opt)
		_ = o
		for _, d := range disabled {
			if calls[d] > 0 {
				c.Violation(k, fmt.Sprintf("running the script called the disabled builtin %q (%s)", d, v.name), det)
				return
			}
		}
	}
}

func subsetsWith(n string) [][]string {
	var others []string
	for _, x := range names {
		if x != n {
			others = append(others, x)
		}
	}
	var out [][]string
	for m := 0; m < 1<<len(others); m++ {
		s := []string{n}
		for i, o := range others {
			if m&(1<<i) != 0 {
				s = append(s, o)
			}
		}
		out = append(out, s)
	}
	return out
}

func uses(n string, withConst bool) []string {
	if withConst {
		return []string{n + `("7") * k`, "k + " + n + `("1")`, "-" + n + `("3") + k`}
	}
	return []string{n + `("7")`, n + `("1") + 1`, "[" + n + `("1")][0]`, n}
}

func run13(c *fw.Ctx) {
	wrapBuiltins()
	sites := c01.UseSites()
	forms := c01.ShadowForms()
	for _, withConst := range []bool{false, true} {
		suffix := map[bool]string{false: "", true: "+const"}[withConst]
		c.Family("undeclared"+suffix, "N referenced without any declaration")
		for _, n := range names {
			for _, s := range sites {
				for _, u := range uses(n, withConst) {
					for si, set := range subsetsWith(n) {
						if !c.Next() {
							continue
						}
						if !c.Thorough() && si > 1 {
							continue
						}
						c.Nontrivial()
						src := "global (L); var r; U := func(...a) { return 99 }; id := func(a) { return a }; " + s.Make(u) + "; return r"
						if withConst {
							src = strings.Replace(src, "global (L); ", "global (L); const k = 2; ", 1)
						}
						c.Sample(map[string]any{"program": src, "disabled": set})
						oneScript(c, fmt.Sprintf("undeclared|%v|%s", set, src), src, set, true, nil, nil, nil)
					}
				}
			}
		}
		for _, f := range forms {
			c.Family("form:"+f.Name+suffix, "binding form x N x sites x uses x disabled subsets")
			for _, n := range names {
				for _, s := range sites {
					for _, u := range uses(n, withConst) {
						for si, set := range subsetsWith(n) {
							if !c.Next() {
								continue
							}
							if !c.Thorough() && si > 0 {
								continue // quick: the singleton set; thorough: all 8 subsets
							}
							c.Nontrivial()
							src, args, globals := f.Build(n, s.Make(u))
							if withConst {
								src = strings.Replace(src, "global (L); ", "global (L); const k = 2; ", 1)
							}
							oneScript(c, fmt.Sprintf("%s|%v|%s", f.Name, set, src), src, set, f.Hidden, args, globals, nil)
						}
					}
				}
			}
		}
	}
	// modules
	// the embedder's table is not empty when the names are disabled: one of them is already declared in it (a global
	// the host defines, a variable left by an earlier script, the builtin itself cached by an earlier use); the OTHER
	// names of the same DisableBuiltin call must be disabled all the same, wherever the declared one stands in the list
	c.Family("predeclared", "symbol table in which one disabled name P is already a global / a local / a used builtin x DisableBuiltin(P, N) and (N, P) and (X, P, N) x N referenced at every site")
	setups := []struct {
		name string
		f    func(st *ugo.SymbolTable, p string)
	}{
		{"global", func(st *ugo.SymbolTable, p string) { st.DefineGlobal(p) }},
		{"local", func(st *ugo.SymbolTable, p string) { st.DefineLocal(p) }},
		{"used-builtin", func(st *ugo.SymbolTable, p string) { st.Resolve(p) }},
	}
	for _, su := range setups {
		for _, pn := range names {
			for _, n := range names {
				if n == pn {
					continue
				}
				var third string
				for _, x := range names {
					if x != n && x != pn {
						third = x
						break
					}
				}
				for oi, order := range [][]string{{pn, n}, {n, pn}, {third, pn, n}} {
					for _, s := range sites {
						for _, u := range uses(n, false)[:2] {
							if !c.Next() {
								continue
							}
							c.Nontrivial()
							src := "global (L); var r; U := func(...a) { return 99 }; id := func(a) { return a }; " + s.Make(u) + "; return r"
							su, pn := su, pn
							tableSetup = func(st *ugo.SymbolTable) { su.f(st, pn) }
							oneScript(c, fmt.Sprintf("predeclared|%s=%s|order%d%v|%s", su.name, pn, oi, order, src), src, order, true, nil, nil, nil)
							tableSetup = nil
						}
					}
				}
			}
		}
	}
	c.Family("modules", "a source module references N; imported from 6 kinds of site; module declares N itself or not")
	impSites := []string{
		`m := import("mod"); return m`,
		`if true { m := import("mod"); return m }; return 0`,
		`f := func() { return import("mod") }; return f()`,
		`for i := 0; i < 1; i++ { m := import("mod"); return m }; return 0`,
		`try { m := import("mod"); return m } finally { }`,
		`f := func() { return func() { return import("mod") } }; return f()()`,
		`m2 := import("mod2"); return m2`,
		`if true { f := func() { return import("mod2") }; return f() }; return 0`,
	}
	for _, n := range names {
		modBodies := []struct {
			src      string
			mustFail bool
		}{
			{"return " + n + `("1")`, true},
			{"f := func() { return " + n + `("1") }; return f()`, true},
			{"const k = 2; f := func() { return " + n + `("2") + k }; return f()`, true},
			{"if true { x := " + n + `("1"); return x }; return 0`, true},
			{n + " := func(...a) { return 5 }; return " + n + `("1")`, false},
			{"f := func(" + n + ") { return " + n + `("1") }; return f(func(x) { return 6 })`, false},
		}
		for _, mb := range modBodies {
			for _, is := range impSites {
				for si, set := range subsetsWith(n) {
					if !c.Next() {
						continue
					}
					if !c.Thorough() && si > 0 {
						continue
					}
					c.Nontrivial()
					mods := map[string]string{"mod": mb.src, "mod2": `return import("mod")`}
					oneScript(c, fmt.Sprintf("module|%v|%s|%s", set, mb.src, is), is, set, mb.mustFail, nil, nil, mods)
				}
			}
		}
	}
	evalSessions(c)
}

// evalSessions: fragments through one Eval; DisableBuiltin may be called by the embedder between fragments.
func evalSessions(c *fw.Ctx) {
	c.Family("eval", "sessions of <= 3 steps over {fragment using N, fragment declaring N, fragment using another name, embedder disables N} x another builtin disabled before the session or not")
	type step struct {
		src     string
		disable bool
	}
	for _, n := range names {
		alphabet := []step{
			{src: "x := " + n + `("1")`}, {src: "y := 1"}, {src: n + " := func(...a) { return 5 }"}, {src: "z := func() { return " + n + `("2") }`}, {src: "const k = 2; w := " + n + `("2") + k`},
			{disable: true},
		}
		var rec func(seq []int)
		rec = func(seq []int) {
			if len(seq) > 0 && c.Next() {
				evalOne(c, n, func() []struct {
					src     string
					disable bool
				} {
					out := make([]struct {
						src     string
						disable bool
					}, len(seq))
					for i, k := range seq {
						out[i] = struct {
							src     string
							disable bool
						}{alphabet[k].src, alphabet[k].disable}
					}
					return out
				}())
			}
			if len(seq) == 3 {
				return
			}
			for k := range alphabet {
				rec(append(append([]int{}, seq...), k))
			}
		}
		rec(nil)
	}
}

func evalOne(c *fw.Ctx, n string, steps []struct {
	src     string
	disable bool
}) {
	var parts []string
	for _, s := range steps {
		if s.disable {
			parts = append(parts, "<DisableBuiltin "+n+">")
		} else {
			parts = append(parts, s.src)
		}
	}
	key := "eval|" + strings.Join(parts, " ## ")
	if c.Skip(key) {
		return
	}
	c.Nontrivial()
	for mode := 0; mode < 4; mode++ {
		noopt := mode&1 == 1
		resetCalls()
		st := ugo.NewSymbolTable()
		if mode&2 == 2 {
			// the embedder has disabled some other builtin before the session starts: the set of disabled names
			// exists already when N is added to it later
			st.DisableBuiltin("isFunction")
		}
		ev := ugo.NewEval(ugo.CompilerOptions{SymbolTable: st, NoOptimize: noopt}, ugo.Map{})
		disabled := false
		declared := false // the session declared N itself before
		usedBefore := false
		for i, s := range steps {
			if s.disable {
				st.DisableBuiltin(n)
				disabled = true
				continue
			}
			usesN := strings.Contains(s.src, n+"(")
			declares := strings.HasPrefix(s.src, n+" :=")
			before := calls[n]
			var bc *ugo.Bytecode
			var err error
			pan := func() (p any) {
				defer func() { p = recover() }()
				_, bc, err = ev.Run(context.Background(), []byte(s.src))
				return nil
			}()
			c.AddEval(1)
			det := map[string]any{"session": parts, "step": i, "no_optimize": noopt}
			if pan != nil {
				c.Violation(key, fmt.Sprintf("Eval panics at step %d: %v", i, pan), det)
				return
			}
			if disabled && !declared && usesN {
				if err == nil {
					c.Violation(key, fmt.Sprintf("step %d references the disabled builtin %q and compiles (noopt=%v)", i, n, noopt), det)
					return
				}
				if calls[n] > before {
					c.Violation(key, fmt.Sprintf("step %d called the disabled builtin %q (noopt=%v)", i, n, noopt), det)
					return
				}
			}
			if !disabled && usesN {
				usedBefore = true
			}
			// (a function compiled while N was still enabled stays in the session's constants: only scan
			// when nothing referenced N before it was disabled)
			if disabled && bc != nil && !declared && !usedBefore {
				if x := scan(bc, []string{n}); x != "" {
					c.Violation(key, fmt.Sprintf("step %d: Bytecode references the disabled builtin %q", i, n), det)
					return
				}
			}
			if declares && err == nil {
				declared = true
			}
		}
	}
}
