package c01

import (
	"fmt"

	"verif/internal/fw"
)

// Family G2:special-floats: values no literal can spell - NaN, +Inf, -Inf, -0.0 - exist at compile time only as
// results of the optimizer's own folding (over-range products, float("NaN"), 0.0/0.0). Every decision the optimizer
// takes on such a folded node (truthiness of a condition, equality with itself, constant pool slot, printing) has to
// agree with the VM's. Each producer is used plain and under one more operator, in every context of G2.
var specialProducers = []string{
	`float("NaN")`, `float("Inf")`, `float("-Inf")`, `float("-0")`, `(1e308 * 10.0)`, `(-1e308 * 10.0)`,
	`((1e308 * 10.0) - (1e308 * 10.0))`, `((1e308 * 10.0) * 0.0)`, `(0.0 / 0.0)`, `(1.0 / 0.0)`, `(-1.0 / 0.0)`, `(0.0 * -1.0)`, `(-0.0)`,
	`((1e308 * 10.0) / (1e308 * 10.0))`, `(float("Inf") - float("Inf"))`, `(float("NaN") + 1)`,
}

var specialUses = []string{
	"E", "(-E)", "(!E)", "(!!E)", "(E == E)", "(E != E)", "(E < 0.0)", "(E > 0.0)", "(E <= E)", "(E + 1.0)", "(E * 0.0)", "(E - E)", "(1 / E)",
	"(E || 7)", "(E && 7)", "(E ? 1 : 2)", "string(E)", "bool(E)", "int(E * 0.0 + 1.0)", "[E][0]", "{a: E}.a", "(E == 0.0)", "(0.0 == E)", "isUndefined(E)",
}

func g2special(c *fw.Ctx) {
	c.Family("G2:special-floats", fmt.Sprintf("%d folded producers of NaN, +-Inf, -0.0 x %d uses x %d contexts", len(specialProducers), len(specialUses), len(contexts)))
	for _, p := range specialProducers {
		for _, u := range specialUses {
			e := ""
			for i := 0; i < len(u); i++ {
				if u[i] == 'E' {
					e += p
				} else {
					e += string(u[i])
				}
			}
			for _, cx := range contexts {
				if !c.Next() {
					continue
				}
				check(c, prog{src: cx.mk(e), constSub: []string{e, p}}, limits)
			}
		}
	}
}

// Family G2:function-identity: two function literals are two function values, also when constant folding makes their
// instructions identical; the script can tell (==, !=) and may use the identity (call-back registries).
var identityBodies = []string{"1 + 1", "2", "4 / 2", `"a" + "b"`, `"ab"`, "-(-2)", "!false", "true", "[1 + 1][0]", "2.0", `len("ab")`, "x + (1 + 1)", "x + 2"}

func g2identity(c *fw.Ctx) {
	c.Family("G2:function-identity", fmt.Sprintf("all ordered pairs of %d function bodies (several fold to the same instructions) x identity observed by ==, != and through calls", len(identityBodies)))
	for _, b1 := range identityBodies {
		for _, b2 := range identityBodies {
			if !c.Next() {
				continue
			}
			src := "global (L); f := func(x) { return " + b1 + " }; g := func(x) { return " + b2 + " }; h := func(x) { return " + b1 + " }; " +
				"reg := [f]; seen := false; for r in reg { if r == g { seen = true } }; return [f == g, f != g, f == h, g == h, f == f, seen, f(1), g(1), h(1)]"
			check(c, prog{src: src, constSub: []string{b1, b2}}, limits)
		}
	}
}
