// Package c01 decides C01: the optimizer never changes what a script does.
// Every program of four enumerated families is compiled with the optimizer off
// and on (at several budgets) and both bytecodes are run on equal inputs.
package c01

import (
	"errors"
	"fmt"
	"strings"

	"github.com/ozanh/ugo"

	"verif/internal/fw"
	"verif/internal/run"
	"verif/internal/uv"
)

func init() {
	fw.Register(&fw.Check{
		ID:    "C01",
		Level: "exploration",
		Rule: "four enumerated program families: G1 shadowing = binding form x evaluable builtin name x use site x use expression (with and without a literal const in scope); " +
			"G2 folding = all operator trees of depth 1 (thorough: depth 2 on a reduced pool) over the literal pool in 10 contexts with side-effect probes; " +
			"G3 budget = scripts with several foldable sites and an imported module under OptimizerLimit 1,2,3,4,5,default; G4 const = const/iota groups used in folded expressions, and const groups whose implicitly repeated expression is re-evaluated under other bindings. " +
			"Each program is compiled with NoOptimize and with the optimizer and both are run on equal globals/arguments; outcome = value (type-exact, NaN/-0 aware), probe log, output, globals, error name+message. " +
			"A refusal by the optimizer alone must be an OptimizerError carrying the runtime error of one of the script's constant sub-expressions. " +
			"non-trivial = the optimized instruction stream differs from the unoptimized one",
		Run: runAll,
		Assumptions: []string{
			"the unoptimized compile is the reference (differential oracle); its own conformance to the documentation is C02's business",
		},
	})
}

// ---------------------------------------------------------------------------

type prog struct {
	src      string
	args     []ugo.Object
	globals  ugo.Map
	modules  map[string]string
	constSub []string // constant sub-expressions (source text), for the refusal rule
}

var limits = []int{0} // 0 = default budget

func insts(bc *ugo.Bytecode) string {
	var sb strings.Builder
	fmt.Fprintf(&sb, "%x|", bc.Main.Instructions)
	for _, c := range bc.Constants {
		if f, ok := c.(*ugo.CompiledFunction); ok {
			fmt.Fprintf(&sb, "%x|", f.Instructions)
		} else {
			sb.WriteString(uv.Repr(c) + "|")
		}
	}
	return sb.String()
}

func optErrCauses(err error) ([]string, bool) {
	var oe *ugo.OptimizerError
	if !errors.As(err, &oe) {
		return nil, false
	}
	var out []string
	var walk func(e error)
	walk = func(e error) {
		if e == nil {
			return
		}
		if m, ok := e.(interface{ Errors() []error }); ok {
			for _, x := range m.Errors() {
				walk(x)
			}
			return
		}
		var o *ugo.OptimizerError
		if errors.As(e, &o) {
			out = append(out, uv.ErrRepr(o.Err))
		}
	}
	walk(err)
	return out, true
}

func check(c *fw.Ctx, p prog, limits []int) {
	key := p.src
	if len(p.modules) > 0 {
		key += " //mod:" + p.modules["mod"]
	}
	base := run.Options{NoOptimize: true, Args: p.args, Globals: p.globals, Modules: p.modules}
	bc0, err0, pan0 := run.Compile(p.src, base)
	if pan0 != "" {
		c.Violation(key+"|noopt-panic", "compiler panics with the optimizer off: "+pan0, map[string]any{"program": p.src})
		return
	}
	var ref run.Obs
	if err0 == nil {
		ref = run.Bytecode(bc0, base)
		if ref.Hung {
			c.Infra("generated program does not terminate unoptimized: %s", p.src)
			return
		}
	}
	c.Sample(map[string]any{"program": p.src, "unoptimized": func() string {
		if err0 != nil {
			return "COMPILE-ERROR " + err0.Error()
		}
		return ref.String()
	}()})
	nontrivial := false
	for _, lim := range limits {
		if c.Skip(key) {
			return
		}
		opt := run.Options{OptLimit: lim, Args: p.args, Globals: p.globals, Modules: p.modules}
		bc1, err1, pan1 := run.Compile(p.src, opt)
		c.AddEval(1)
		cfg := fmt.Sprintf("OptimizerLimit=%d", lim)
		detail := map[string]any{"program": p.src, "modules": p.modules, "config": cfg}
		if pan1 != "" {
			c.Violation(key+"|"+cfg, "compiling with the optimizer panics: "+pan1, detail)
			return
		}
		if err0 != nil {
			// not compilable without the optimizer: outside the property (it quantifies over scripts that compile both ways)
			c.Outcome("noopt-compile-error")
			continue
		}
		if err1 != nil {
			causes, isOpt := optErrCauses(err1)
			if !isOpt {
				c.Violation(key+"|"+cfg, "only the optimized compile fails, and not with an optimizer error: "+err1.Error(), detail)
				return
			}
			allowed := map[string]bool{}
			for _, s := range p.constSub {
				o := run.Source("return "+s, run.Options{NoOptimize: true})
				if o.ErrName != "" {
					allowed[o.ErrName+": "+o.ErrMsg] = true
				}
			}
			for _, cs := range causes {
				if !allowed[cs] {
					detail["allowed"] = allowed
					c.Violation(key+"|"+cfg, fmt.Sprintf("optimizer refuses the script with %q, which is not the runtime error of any constant sub-expression of the script", cs), detail)
					return
				}
			}
			c.Outcome("refused")
			continue
		}
		if insts(bc0) != insts(bc1) {
			nontrivial = true
		}
		got := run.Bytecode(bc1, opt)
		if got.Key() != ref.Key() {
			again := run.Bytecode(bc1, opt)
			ref2 := run.Bytecode(bc0, base)
			if again.Key() == ref2.Key() { // a second pair of runs agrees (texts of a disagreement may vary, e.g. Go stacks)
				c.Infra("unstable outcome for %s", p.src)
				return
			}
			detail["unoptimized"] = ref.String()
			detail["optimized"] = got.String()
			c.Violation(key+"|"+cfg, fmt.Sprintf("outcome differs: unoptimized %s, optimized (%s) %s", ref.String(), cfg, got.String()), detail)
			c.Outcome("differ")
			return
		}
	}
	if nontrivial {
		c.Nontrivial()
	}
	if ref.ErrName != "" {
		c.Outcome("error:" + ref.ErrName)
	} else {
		c.Outcome("value")
	}
}

func runAll(c *fw.Ctx) {
	g1(c)
	g2(c)
	g2special(c)
	g2identity(c)
	g3(c)
	g4(c)
}

// ---------------------------------------------------------------------------
// G1: shadowing

var builtinNames = []string{"int", "string", "len", "bool", "char", "float", "uint", "typeName", "contains", "error", "sprintf", "isInt", "bytes", "chars"}

var ufn = &ugo.Function{Name: "U", Value: func(args ...ugo.Object) (ugo.Object, error) { return ugo.Int(99), nil }}

type form struct {
	name string
	// build returns the program given the body (statements computing `r`) for name N
	build func(n string, body string) prog
	// hidden: the binding is not in scope at the use site, the name still means the builtin there
	hidden bool
	// constLit: the name is bound to a literal constant (const N = 5)
	constLit bool
}

const pre = "global (L); var r; U := func(...a) { return 99 }; id := func(a) { return a }; "

func forms() []form {
	p := func(src string) prog { return prog{src: src} }
	return []form{
		{name: "define", build: func(n, b string) prog { return p(pre + n + " := U; " + b + "; return r") }},
		{name: "var", build: func(n, b string) prog { return p(pre + "var " + n + " = U; " + b + "; return r") }},
		{name: "var-then-assign", build: func(n, b string) prog { return p(pre + "var " + n + "; " + n + " = U; " + b + "; return r") }},
		{name: "const-nonliteral", build: func(n, b string) prog { return p(pre + "const " + n + " = U; " + b + "; return r") }},
		{name: "const-literal", constLit: true, build: func(n, b string) prog { return p(pre + "const " + n + " = 5; " + b + "; return r") }},
		{name: "param", build: func(n, b string) prog {
			return prog{src: "param (" + n + "); " + pre + b + "; return r", args: []ugo.Object{ufn}}
		}},
		{name: "param-variadic", build: func(n, b string) prog {
			return prog{src: "param (..." + n + "); " + pre + b + "; return r", args: []ugo.Object{ufn}}
		}},
		{name: "global", build: func(n, b string) prog {
			return prog{src: "global (" + n + "); " + pre + b + "; return r", globals: ugo.Map{n: ufn}}
		}},
		{name: "func-param", build: func(n, b string) prog { return p(pre + "f := func(" + n + ") { " + b + " }; f(U); return r") }},
		{name: "func-variadic-param", build: func(n, b string) prog { return p(pre + "f := func(..." + n + ") { " + b + " }; f(U); return r") }},
		{name: "forin-value", build: func(n, b string) prog { return p(pre + "for _, " + n + " in [U] { " + b + " }; return r") }},
		{name: "forin-key", build: func(n, b string) prog { return p(pre + "for " + n + ", v in [U] { " + b + " }; return r") }},
		{name: "forin-only-value", build: func(n, b string) prog { return p(pre + "for " + n + " in [U] { " + b + " }; return r") }},
		{name: "catch-ident", build: func(n, b string) prog { return p(pre + "try { throw \"e\" } catch " + n + " { " + b + " }; return r") }},
		{name: "catch-ident-used-in-finally", build: func(n, b string) prog {
			return p(pre + "try { throw \"e\" } catch " + n + " { } finally { " + b + " }; return r")
		}},
		{name: "destructuring", build: func(n, b string) prog { return p(pre + "a, " + n + " := [1, U]; " + b + "; return r") }},
		{name: "enclosing-function", build: func(n, b string) prog {
			return p(pre + "func() { " + n + " := U; func() { " + b + " }() }(); return r")
		}},
		{name: "enclosing-function-param", build: func(n, b string) prog {
			return p(pre + "func(" + n + ") { return func() { " + b + " } }(U)(); return r")
		}},
		{name: "if-init", build: func(n, b string) prog { return p(pre + "if " + n + " := U; true { " + b + " }; return r") }},
		{name: "for-init", build: func(n, b string) prog { return p(pre + "for " + n + " := U; true; { " + b + "; break }; return r") }},
		{name: "inner-block-only", hidden: true, build: func(n, b string) prog {
			return p(pre + "if true { " + n + " := U; L(1, " + n + "(1)) }; " + b + "; return r")
		}},
		{name: "sibling-function-only", hidden: true, build: func(n, b string) prog {
			return p(pre + "g := func(" + n + ") { return " + n + "(1) }; L(1, g(U)); " + b + "; return r")
		}},
		{name: "declared-after-use", hidden: true, build: func(n, b string) prog { return p(pre + b + "; " + n + " := U; return [r, " + n + "(1)]") }},
		{name: "assigned-in-closure", build: func(n, b string) prog {
			return p(pre + "var " + n + "; set := func() { " + n + " = U }; set(); " + b + "; return r")
		}},
	}
}

type site struct {
	name string
	mk   func(e string) string
}

var sites = []site{
	{"same-scope", func(e string) string { return "r = " + e }},
	{"block", func(e string) string { return "if true { r = " + e + " }" }},
	{"nested-func", func(e string) string { return "r = func() { return " + e + " }()" }},
	{"loop", func(e string) string { return "for i := 0; i < 1; i++ { r = " + e + " }" }},
	{"try", func(e string) string { return "try { r = " + e + " } finally { }" }},
	{"catch", func(e string) string { return "try { throw \"z\" } catch { r = " + e + " }" }},
	{"finally", func(e string) string { return "try { } finally { r = " + e + " }" }},
	{"call-arg", func(e string) string { return "r = id(" + e + ")" }},
	{"array-elem", func(e string) string { return "r = [" + e + ", 1]" }},
	{"map-value", func(e string) string { return "r = {k: " + e + "}" }},
	{"index", func(e string) string { return "r = [5, 6, 7, 8, 9, 10, 11, 12][" + e + "]" }},
	{"slice-bound", func(e string) string { return "r = \"0123456789\"[:" + e + "]" }},
	{"if-cond", func(e string) string { return "if " + e + " { r = 1 } else { r = 2 }" }},
	{"cond-expr", func(e string) string { return "r = " + e + " ? 1 : 2" }},
	{"for-cond", func(e string) string { return "for " + e + " { r = 1; break }" }},
	{"throw", func(e string) string { return "try { throw " + e + " } catch ee { r = string(ee) }" }},
	{"logical", func(e string) string { return "r = " + e + " && L(2, 3)" }},
}

func uses(n string, withConst bool) []string {
	u := []string{n + `("7")`, n + "(1) + 1", "[" + n + `("1")][0]`, n + "(" + n + `("1"))`, "-" + n + `("3")`}
	if withConst {
		u = []string{n + `("7") * k`, "k + " + n + "(1)", n + "(k)", "-" + n + `("3") + k`}
	}
	return u
}

func g1(c *fw.Ctx) {
	// mode 0: no literal constant in scope; 1: const k = 2 in scope; 2: as 1, and the builtin has already been used
	// (un-shadowed, inside an expression with k) before the binding form - the optimizer has seen it resolve to the builtin
	for mode := 0; mode < 3; mode++ {
		withConst := mode > 0
		for _, f := range forms() {
			c.Family("G1:"+f.name+[]string{"", "+const", "+const+prior-use"}[mode], fmt.Sprintf("%d names x %d sites x use expressions", len(builtinNames), len(sites)))
			for _, n := range builtinNames {
				for _, s := range sites {
					for _, u := range uses(n, withConst) {
						if !c.Next() {
							continue
						}
						p := f.build(n, s.mk(u))
						switch mode {
						case 1:
							p.src = strings.Replace(p.src, "global (L); ", "global (L); const k = 2; ", 1)
						case 2:
							p.src = strings.Replace(p.src, "global (L); ", "global (L); const k = 2; pre0 := ["+n+"(\"7\") * k, k + "+n+"(1)]; ", 1)
						}
						if f.hidden {
							// the use expression is a constant expression over the builtin
							p.constSub = []string{"func() { const k = 2; return " + u + " }()", "func() { const k = 2; return " + s.mk(u)[strings.Index(s.mk(u), u):] + " }()"}
						}
						if f.constLit {
							// the name is a literal constant of the script: its uses are constant sub-expressions, and calling
							// the constant is the script's own (constant) runtime error
							p.constSub = append(p.constSub, "func() { const k = 2; const "+n+" = 5; return "+u+" }()")
						}
						if mode == 2 {
							p.constSub = append(p.constSub, "func() { const k = 2; return "+n+"(\"7\") * k }()", "func() { const k = 2; return k + "+n+"(1) }()")
						}
						check(c, p, []int{0, 1})
					}
				}
			}
		}
	}
}

// ---------------------------------------------------------------------------
// G2: folding

var binOps = []string{"+", "-", "*", "/", "%", "&", "|", "^", "&^", "<<", ">>", "==", "!=", "<", "<=", ">", ">=", "&&", "||"}
var unOps = []string{"-", "+", "^", "!"}

var litPool = []string{"0", "1", "(-1)", "2", "63", "64", "(-64)", "9223372036854775807", "(-9223372036854775807)", "0x10", "0u", "1u", "18446744073709551615u",
	"0.0", "(-0.0)", "1.5", "1e308", "'a'", "'\\x00'", `""`, `"a"`, "true", "false", "undefined"}

var smallPool = []string{"0", "1", "(-1)", "64", "2u", "1.5", "(-0.0)", "'a'", `"a"`, "true", "undefined"}

type ctxt struct {
	name string
	mk   func(e string) string
}

var contexts = []ctxt{
	{"return", func(e string) string { return "global (L); return " + e }},
	{"define", func(e string) string { return "global (L); x := " + e + "; return x" }},
	{"const", func(e string) string { return "global (L); const c = " + e + "; return c" }},
	{"if", func(e string) string { return "global (L); if " + e + " { L(1) } else { L(2) }; return 0" }},
	{"cond", func(e string) string { return "global (L); return " + e + " ? L(1) : L(2)" }},
	{"for", func(e string) string { return "global (L); for " + e + " { L(1); break }; return 0" }},
	{"and", func(e string) string { return "global (L); return " + e + " && L(1, 1)" }},
	{"or", func(e string) string { return "global (L); return L(1, 0) || " + e }},
	{"call-arg", func(e string) string { return "global (L); id := func(a) { return a }; return id(" + e + ")" }},
	{"index", func(e string) string { return "global (L); return [1, 2, 3][" + e + "]" }},
	{"string-arg", func(e string) string { return "global (L); return string(" + e + ")" }},
	{"never-executed", func(e string) string { return "global (L); z := 0; if z { return " + e + " }; return 1" }},
	{"pool-mates", func(e string) string { return "global (L); return [0.0, 0, 1, \"\", 0u, 'a', 97, " + e + "]" }},
}

func g2(c *fw.Ctx) {
	c.Family("G2:depth1", fmt.Sprintf("%d binary ops x %d^2 literals + %d unary ops x %d literals, x %d contexts", len(binOps), len(litPool), len(unOps), len(litPool), len(contexts)))
	for _, op := range binOps {
		for _, a := range litPool {
			for _, b := range litPool {
				e := "(" + a + " " + op + " " + b + ")"
				for _, cx := range contexts {
					if !c.Next() {
						continue
					}
					check(c, prog{src: cx.mk(e), constSub: []string{e}}, limits)
				}
			}
		}
	}
	for _, op := range unOps {
		for _, a := range litPool {
			e := "(" + op + a + ")"
			for _, cx := range contexts {
				if !c.Next() {
					continue
				}
				check(c, prog{src: cx.mk(e), constSub: []string{e}}, limits)
			}
		}
	}
	// builtin calls on literals (dynamic evaluation by the optimizer's private VM)
	c.Family("G2:builtin-calls", "evaluable builtins x literal pool (1 and 2 arguments) x 3 contexts")
	for _, n := range builtinNames {
		for _, a := range litPool {
			for _, extra := range []string{"", ", 1", `, "a"`} {
				e := n + "(" + a + extra + ")"
				for _, cx := range contexts[:3] {
					if !c.Next() {
						continue
					}
					check(c, prog{src: cx.mk(e), constSub: []string{e}}, limits)
				}
			}
		}
	}
	if !c.Thorough() {
		return
	}
	c.Family("G2:depth2", fmt.Sprintf("2 shapes x %d^2 ops x %d^3 literals x 3 contexts", len(binOps), len(smallPool)))
	for _, op1 := range binOps {
		for _, op2 := range binOps {
			for _, a := range smallPool {
				for _, b := range smallPool {
					for _, d := range smallPool {
						in1 := "(" + a + " " + op1 + " " + b + ")"
						in2 := "(" + b + " " + op2 + " " + d + ")"
						e1 := "(" + in1 + " " + op2 + " " + d + ")"
						e2 := "(" + a + " " + op1 + " " + in2 + ")"
						for ci, cx := range []ctxt{contexts[0], contexts[2], contexts[3]} {
							_ = ci
							if c.Next() {
								check(c, prog{src: cx.mk(e1), constSub: []string{e1, in1}}, limits)
							}
							if c.Next() {
								check(c, prog{src: cx.mk(e2), constSub: []string{e2, in2}}, limits)
							}
						}
					}
				}
			}
		}
	}
}

// ---------------------------------------------------------------------------
// G3: budget

func g3(c *fw.Ctx) {
	exprs := []string{"(1 + 2)", "(2 * 3 + 4)", `("a" + "b")`, "(1 << 4)", `int("7")`, `len("abc")`, "(!0)", "(-(3))", `(string(1) + "x")`, "(10 / 4)", "(1.5 * 2.0)", `sprintf("%d", 5)`,
		"(7 % 4)", `(1 < 2)`, `("a" == "a")`, `uint("0b0101")`, "(1 / 0)", `int("x")`, "(2 - 3 * 4)", `(true && 1)`}
	lims := []int{1, 2, 3, 4, 5, 0}
	c.Family("G3:budget", fmt.Sprintf("%d^2 expression pairs in main x %d in an imported module x limits %v", len(exprs), 4, lims))
	mods := []string{"(3 * 3)", `len("ab")`, "(1 / 0)", `("m" + "n")`}
	for _, e1 := range exprs {
		for _, e2 := range exprs {
			for _, m := range mods {
				if !c.Next() {
					continue
				}
				src := "global (L); a := " + e1 + "; b := func() { return " + e2 + " }; m := import(\"mod\"); f := 0; if f { return " + e2 + " }; return [a, b(), " + e1 + ", m]"
				check(c, prog{src: src, modules: map[string]string{"mod": "x := " + m + "; return [x, " + m + "]"}, constSub: []string{e1, e2, m}}, lims)
			}
		}
	}
}

// ---------------------------------------------------------------------------
// G4: const literals

func g4(c *fw.Ctx) {
	vals := []string{"2", "(-3)", "0x10", "010", "5u", "1.5", "'a'", `"s"`, "true", "undefined", "(1 + 2)", `len("ab")`}
	usesOf := func(n string) []string {
		return []string{n, n + " + 1", n + " * " + n, `"n=" + ` + n, n + ` + "!"`, "-" + n, "!" + n, "[" + n + "][0]", "string(" + n + ")", n + " == " + n, "int(" + n + ") + 1",
			"func() { return " + n + " + 1 }()", "func(" + n + ") { return " + n + " + 1 }(40)", "func() { const " + n + " = 7; return " + n + " * 2 }()", "func() { " + n + " := 9; return " + n + " - 1 }()"}
	}
	c.Family("G4:const", fmt.Sprintf("%d const values x uses x placements", len(vals)))
	for _, v := range vals {
		for _, u := range usesOf("qq") {
			for place := 0; place < 5; place++ {
				if !c.Next() {
					continue
				}
				var src string
				switch place {
				case 0:
					src = "global (L); const qq = " + v + "; return " + u
				case 1:
					src = "global (L); const qq = " + v + "; const d = qq; return [" + strings.ReplaceAll(u, "qq", "d") + ", qq]"
				case 2:
					src = "global (L); const qq = " + v + "; f := func() { return " + u + " }; return f()"
				case 3:
					src = "global (L); const qq = " + v + "; if true { const qq = 100; L(1, " + u + ") }; return " + u
				case 4:
					src = "global (L); const (a = iota, qq = " + v + ", e); return [a, " + u + ", e]"
				}
				check(c, prog{src: src, constSub: []string{v, strings.ReplaceAll(u, "qq", v), strings.ReplaceAll(u, "qq", "100"), strings.ReplaceAll(u, "qq", "7")}}, []int{0, 1, 2})
			}
		}
	}
	// const groups whose repeated expression is evaluated again under other bindings: a later spec re-declares a name
	// that the expression uses, or the expression uses an earlier member of the same group
	c.Family("G4:repeat", "const groups with implicit repetition: 11 expressions (3 of them inside function and map literals) over an outer constant k, iota and the first member x 4 name lists (fresh names, k re-declared as 2nd or 3rd member) x 3 placements x 3 kinds of outer k")
	rexprs := []string{"k + 1", "k + iota", "k * 2 + iota", "-k", "[k, iota][0]", "string(k) + \"!\"", "k == 100", "a0 + k",
		"func() { return k + 1 }()", "func() { return func() { return -k }() }()", "{v: k + 1}.v"}
	for _, e := range rexprs {
		for _, names := range [][]string{{"b", "c2"}, {"k", "c2"}, {"b", "k"}, {"b", "c2", "k", "d"}} {
			for place := 0; place < 3; place++ {
				for _, outer := range []string{"const k = 100", "const k = 99 + 1", "k := 100"} {
					if !c.Next() {
						continue
					}
					first := "a = " + e
					pre := ""
					if strings.Contains(e, "a0") {
						pre = "const a0 = 5; "
					}
					group := "const (" + first + ", " + strings.Join(names, ", ") + ")"
					ret := "return [a, " + strings.Join(names, ", ") + "]"
					var src string
					switch place {
					case 0:
						if names[0] == "k" || names[len(names)-1] == "k" || len(names) == 4 {
							// re-declaring k in the scope where it was declared is a compile error either way
							src = "global (L); " + outer + "; " + pre + "if true { " + group + "; L(" + strings.Join(append([]string{"a"}, names...), ", ") + ") }; return k"
						} else {
							src = "global (L); " + outer + "; " + pre + group + "; " + ret
						}
					case 1:
						src = "global (L); " + outer + "; " + pre + "f := func() { " + group + "; " + ret + " }; return f()"
					default:
						src = "global (L); " + outer + "; " + pre + "f := func(p) { if p { " + group + "; " + ret + " }; return k }; return [f(1), f(0)]"
					}
					check(c, prog{src: src}, []int{0, 1, 2})
				}
			}
		}
	}
	c.Family("G4:iota", "iota groups with folded expressions")
	iexprs := []string{"iota", "1 << iota", "iota * 10", "iota + iota", `"s" + iota`, "[iota]", "-iota", "iota == 1", "1 / iota", "10 % (iota + 1)", "int(iota) + 1", "uint(iota)", "iota ? 1 : 2"}
	for _, e := range iexprs {
		for n := 1; n <= 4; n++ {
			for skip := 0; skip < 2; skip++ {
				if !c.Next() {
					continue
				}
				names := []string{"a", "b", "c2", "d"}[:n]
				if skip == 1 {
					names[0] = "_"
				}
				var ret []string
				for _, x := range names {
					if x != "_" {
						ret = append(ret, x)
					}
				}
				src := "global (L); const (" + names[0] + " = " + e
				for _, x := range names[1:] {
					src += ", " + x
				}
				src += "); return [" + strings.Join(ret, ", ") + "]"
				check(c, prog{src: src, constSub: []string{"1 / 0", "10 % 0"}}, []int{0, 1})
			}
		}
	}
}

// ---------------------------------------------------------------------------
// exported pieces of G1 for C13 (same binding forms and use sites)

// ShadowForm is one way of binding a name; Build places body (statements that
// compute `r`) in the scope of the binding of name n.
type ShadowForm struct {
	Name   string
	Hidden bool // the binding is not in scope at the use site
	Build  func(n, body string) (src string, args []ugo.Object, globals ugo.Map)
}

// ShadowForms returns the binding forms of G1.
func ShadowForms() []ShadowForm {
	var out []ShadowForm
	for _, f := range forms() {
		f := f
		out = append(out, ShadowForm{Name: f.name, Hidden: f.hidden, Build: func(n, body string) (string, []ugo.Object, ugo.Map) {
			p := f.build(n, body)
			return p.src, p.args, p.globals
		}})
	}
	return out
}

// UseSite wraps a use expression into statements assigning `r`.
type UseSite struct {
	Name string
	Make func(e string) string
}

// UseSites returns the use sites of G1.
func UseSites() []UseSite {
	var out []UseSite
	for _, s := range sites {
		out = append(out, UseSite{s.name, s.mk})
	}
	return out
}
