// Package c10 decides C10: evaluating fragments one by one in a single Eval
// session equals evaluating their concatenation as one script. State-space
// search over statement sequences, every way of cutting each sequence into
// consecutive fragments.
package c10

import (
	"bytes"
	"context"
	"errors"
	"fmt"
	"regexp"
	"strings"
	"time"

	"github.com/ozanh/ugo"

	"verif/internal/fw"
	"verif/internal/uv"
)

func init() {
	fw.Register(&fw.Check{
		ID:    "C10",
		Level: "model_checking",
		Rule: "alphabet of 45 top-level statements over a few shared names (declarations with :=, var, const, const/iota, global, destructuring; assignments and ++; closure creation before/after writes to captured variables; closure factories; " +
			"blocks, loops and try statements that re-use local slots; imports of a counting source module and a builtin module + mutation; shadowing a builtin; expression statements; println; the constants -0.0 and 0.0; runtime and compile errors). " +
			"A state is a statement sequence of length <= 3 (thorough 4); for every sequence ALL 2^(n-1) ways of cutting it into consecutive fragments are evaluated in one Eval session and, for every fragment k, compared with a fresh Eval given the concatenation of fragments 1..k: " +
			"result value or error (compile errors without position), cumulative printed output, and after the last fragment a probe fragment returning every declared name and calling every closure. Optimizer on and off. " +
			"states = sequences, transitions = fragment evaluations, traces = comparisons; non-trivial = the cut separates a closure's creation from a later write to its captured variable, or follows a slot-re-using block, a const group, an import or a try",
		Run: run10,
	})
}

type stmt struct {
	src      string
	declares []string // names available to the probe afterwards
	closures []string // callable names
	tag      string   // why a cut after it is interesting
}

// isExpr: the statement is an expression statement, i.e. it defines the value of a fragment that ends with it.
// (Eval returns "the last value on the stack"; a fragment ending in a declaration, assignment, loop, ... has no
// defined result value, so values are compared only for fragments ending in an expression statement.)
func (s stmt) isExpr() bool {
	switch s.src {
	case "len(\"abc\")", "len * 2", "[string(nz), string(pz)]", "f()", "g()", "h()", "m.inc()", "import(\"cnt\").inc()", "bm.x", "int(\"7\")", "println(\"p\", a)", "a", "[a, b]", "z := 0; 1 / z", "nosuchname", "inc == add":
		return true
	}
	return false
}

var alphabet = []stmt{
	{src: "a := 1", declares: []string{"a"}},
	{src: "a = 2"},
	{src: "a++"},
	{src: "var b", declares: []string{"b"}},
	{src: "b = a + 10"},
	{src: "const c = 3", declares: []string{"c"}, tag: "const"},
	{src: "const (c1 = iota, c2, c3 = \"s\" + iota)", declares: []string{"c1", "c2", "c3"}, tag: "const"},
	{src: "global G", declares: []string{"G"}},
	{src: "G = a"},
	{src: "x, y := [1, 2]", declares: []string{"x", "y"}},
	{src: "x, a := [7, 8]", declares: []string{"x", "a"}},
	{src: "f := func() { return a }", declares: nil, closures: []string{"f"}, tag: "closure"},
	{src: "g := func() { a++; return a }", closures: []string{"g"}, tag: "closure"},
	{src: "f()"},
	{src: "g()"},
	{src: "mk := func() { n := 0; return func() { n++; return n } }; h := mk()", closures: []string{"h"}, tag: "closure"},
	{src: "h()"},
	{src: "if a { t := a; u := t + 1; a = u }", tag: "slots"},
	{src: "for i := 0; i < 2; i++ { w := i; a += w }", tag: "slots"},
	{src: "for k, v in [5, 6] { a = a + k + v }", tag: "slots"},
	{src: "try { throw \"e\" } catch err { a = 7 } finally { b = 8 }", tag: "try"},
	{src: "try { a = 9 } finally { }", tag: "try"},
	{src: "m := import(\"cnt\")", declares: []string{}, closures: nil, tag: "import"},
	{src: "m.inc()"},
	{src: "import(\"cnt\").inc()", tag: "import"},
	{src: "bm := import(\"bm\"); bm.x = 5", tag: "import"},
	{src: "bm.x"},
	{src: "int := func(x) { return 99 }", tag: "closure"},
	{src: "int(\"7\")"},
	{src: "println(\"p\", a)"},
	{src: "a"},
	{src: "[a, b]"},
	{src: "z := 0; 1 / z"},
	{src: "nosuchname"},
	{src: "a := 5"},
	{src: "c = 4"},
	{src: "k := func() { return func() { return a + b } }()", closures: []string{"k"}, tag: "closure"},
	// constants that are equal as Go map keys but distinct values: the session's constant pool is carried from
	// fragment to fragment
	{src: "nz := -0.0", declares: []string{"nz"}, tag: "const"},
	{src: "pz := 0.0", declares: []string{"pz"}, tag: "const"},
	{src: "[string(nz), string(pz)]"},
	// a literal constant named like a builtin that the optimizer may evaluate
	{src: "const len = 7", declares: []string{"len"}, tag: "const"},
	{src: "len * 2"},
	// a builtin is used (with a non-constant argument), then shadowed, then called with constant arguments
	{src: "xs := [1, 2]; q1 := len(xs)", declares: []string{"xs", "q1"}},
	{src: "len := func(s) { return 42 }", tag: "closure"},
	{src: "len(\"abc\")"},
	// two function literals with the same text at the same offset of their fragments are two functions
	{src: "inc := func(x) { return x + 1 }", declares: []string{"inc"}, tag: "closure"},
	{src: "add := func(x) { return x + 1 }", declares: []string{"add"}, tag: "closure"},
	{src: "inc == add"},
	// a try statement without finally, and a loop whose break/continue has to run finally blocks: the compiler counts
	// the try statements around a jump
	{src: "try { throw \"e\" } catch err { println(\"caught\") }", tag: "try"},
	{src: "for i := 0; i < 2; i++ { try { if i == 0 { continue }; break } finally { println(\"finally\", i) } }", tag: "try"},
}

func moduleMap() *ugo.ModuleMap {
	mm := ugo.NewModuleMap()
	mm.AddSourceModule("cnt", []byte("n := 0\nprintln(\"cnt body\")\nreturn {inc: func() { n++; return n }}"))
	mm.AddBuiltinModule("bm", map[string]ugo.Object{"x": ugo.Int(1)})
	return mm
}

type fragResult struct {
	val string
	err string
	out string
}

var posRe = regexp.MustCompile(`\n\tat .*`)
var lineRe = regexp.MustCompile(`:\d+:\d+`)

func errText(err error) string {
	if err == nil {
		return ""
	}
	var oe *ugo.OptimizerError
	if errors.As(err, &oe) {
		// the optimizer refuses a script whose constant sub-expression fails: a compile-time failure (nothing ran,
		// nothing was printed) carrying the runtime error's name
		return "compile:optimizer:" + uv.ErrRepr(err)
	}
	if n := uv.ErrName(err); n != "" {
		return uv.ErrRepr(err)
	}
	if errors.Is(err, context.DeadlineExceeded) {
		return "deadline"
	}
	s := posRe.ReplaceAllString(err.Error(), "")
	return "compile:" + lineRe.ReplaceAllString(s, "")
}

type session struct {
	ev  *ugo.Eval
	out *bytes.Buffer
}

// sessionArgs are the arguments every Eval session of the current family is created with.
var sessionArgs []ugo.Object

func newSession(noopt bool) *session {
	return &session{ev: ugo.NewEval(ugo.CompilerOptions{NoOptimize: noopt, ModuleMap: moduleMap()}, ugo.Map{}, append([]ugo.Object{}, sessionArgs...)...), out: &bytes.Buffer{}} // a fresh slice: Eval keeps and re-uses it
}

func (s *session) run(frag string) (r fragResult, pan any) {
	defer func() {
		if p := recover(); p != nil {
			pan = p
		}
	}()
	prev := ugo.PrintWriter
	ugo.PrintWriter = s.out
	defer func() { ugo.PrintWriter = prev }()
	ctx, cancel := context.WithTimeout(context.Background(), 5*time.Second)
	defer cancel()
	v, _, err := s.ev.Run(ctx, []byte(frag))
	if err != nil {
		r.err = errText(err)
	} else {
		r.val = uv.Repr(v)
	}
	r.out = s.out.String()
	return
}

func run10(c *fw.Ctx) {
	maxLen := 3
	if c.Thorough() {
		maxLen = 4
	}
	c.Family("sequences", fmt.Sprintf("all statement sequences of length <= %d over %d statements x all cuts x optimizer on/off", maxLen, len(alphabet)))
	seq := make([]int, 0, maxLen)
	var rec func()
	rec = func() {
		if len(seq) > 0 && c.Next() {
			explore(c, seq)
		}
		if len(seq) == maxLen {
			return
		}
		for i := range alphabet {
			seq = append(seq, i)
			rec()
			seq = seq[:len(seq)-1]
		}
	}
	rec()
	// sessions created with arguments: a param declaration (fixed, variadic) in the first statement, locals and closures
	// after it, every cut
	c.Family("params", "Eval created with arguments (1, 2, 3): 5 param declarations followed by <= 3 of 7 statements, all cuts")
	saved := alphabet
	sessionArgs = []ugo.Object{ugo.Int(1), ugo.Int(2), ugo.Int(3)}
	heads := []stmt{
		{src: "param (a, ...b)", declares: []string{"a", "b"}},
		{src: "param (a, b)", declares: []string{"a", "b"}},
		{src: "param (a, b, c0, d0)", declares: []string{"a", "b", "c0", "d0"}},
		{src: "param ...a", declares: []string{"a"}},
		{src: "param a", declares: []string{"a"}},
	}
	tails := []stmt{
		{src: "c := 5", declares: []string{"c"}},
		{src: "x, y := [7, 8]", declares: []string{"x", "y"}},
		{src: "a = 9"},
		{src: "f := func() { return a }", closures: []string{"f"}, tag: "closure"},
		{src: "f()"},
		{src: "a"},
		{src: "for i := 0; i < 2; i++ { w := i; c0 := w }", tag: "slots"},
	}
	alphabet = append(append([]stmt{}, heads...), tails...)
	var prec func()
	prec = func() {
		if len(seq) > 1 && c.Next() {
			explore(c, seq)
		}
		if len(seq) == 4 {
			return
		}
		lo, hi := len(heads), len(alphabet)
		if len(seq) == 0 {
			lo, hi = 0, len(heads)
		}
		for i := lo; i < hi; i++ {
			seq = append(seq, i)
			prec()
			seq = seq[:len(seq)-1]
		}
	}
	seq = seq[:0]
	prec()
	alphabet = saved
	sessionArgs = nil
}

func explore(c *fw.Ctx, seq []int) {
	n := len(seq)
	srcs := make([]string, n)
	for i, k := range seq {
		srcs[i] = alphabet[k].src
	}
	seqKey := strings.Join(srcs, " ;; ")
	c.AddStates(1)
	for cut := 0; cut < 1<<(n-1); cut++ {
		// fragments: statement i starts a new fragment if bit i-1 of cut is set
		var frags []string
		var lastIsExpr []bool
		cur := srcs[0]
		interesting := false
		for i := 1; i < n; i++ {
			if cut&(1<<(i-1)) != 0 {
				frags = append(frags, cur)
				lastIsExpr = append(lastIsExpr, alphabet[seq[i-1]].isExpr())
				cur = srcs[i]
				if alphabet[seq[i-1]].tag != "" {
					interesting = true
				}
			} else {
				cur += "\n" + srcs[i]
			}
		}
		frags = append(frags, cur)
		lastIsExpr = append(lastIsExpr, alphabet[seq[n-1]].isExpr())
		key := seqKey + " | cut=" + strings.Join(frags, " ## ")
		if c.Skip(key) {
			continue
		}
		if interesting {
			c.Nontrivial()
		}
		if cut == (1<<(n-1))-1 {
			c.Sample(map[string]any{"fragments": frags})
		}
		for _, noopt := range []bool{false, true} {
			if !compareCut(c, key, seq, frags, lastIsExpr, noopt) {
				return
			}
		}
	}
}

func probeFor(seq []int) string {
	seen := map[string]bool{}
	var names, calls []string
	for _, k := range seq {
		for _, d := range alphabet[k].declares {
			if !seen[d] {
				seen[d] = true
				names = append(names, d)
			}
		}
		for _, cl := range alphabet[k].closures {
			if !seen[cl+"()"] {
				seen[cl+"()"] = true
				calls = append(calls, cl+"()")
			}
		}
	}
	all := append(names, calls...)
	all = append(all, calls...) // closures are called twice: they must keep their own state
	return "[" + strings.Join(all, ", ") + "]"
}

func compareCut(c *fw.Ctx, key string, seq []int, frags []string, lastIsExpr []bool, noopt bool) bool {
	a := newSession(noopt)
	concat := ""
	det := func(extra map[string]any) map[string]any {
		m := map[string]any{"fragments": frags, "no_optimize": noopt}
		for k, v := range extra {
			m[k] = v
		}
		return m
	}
	failed := false
	for k, f := range frags {
		ra, pan := a.run(f)
		c.AddTransitions(1)
		if pan != nil {
			c.Violation(key, fmt.Sprintf("Eval panics on fragment %d: %v", k+1, pan), det(nil))
			return false
		}
		if concat != "" {
			concat += "\n"
		}
		concat += f
		b := newSession(noopt)
		rb, pan := b.run(concat)
		c.AddTransitions(1)
		c.AddTraces(1)
		if pan != nil {
			c.Violation(key, fmt.Sprintf("Eval panics on the concatenation of fragments 1..%d: %v", k+1, pan), det(nil))
			return false
		}
		compileFail := strings.HasPrefix(ra.err, "compile:") || strings.HasPrefix(rb.err, "compile:")
		// a constant sub-expression that fails: the fragment alone may fail at run time (or be refused) while the
		// concatenation is refused by the optimizer with the same error, or the other way round
		strip := func(e string) string { return strings.TrimPrefix(e, "compile:optimizer:") }
		same := strip(ra.err) == strip(rb.err) && (ra.val == rb.val || !lastIsExpr[k])
		if same && !compileFail && ra.out != rb.out {
			same = false
		}
		if !same {
			c.Violation(key, fmt.Sprintf("fragment %d of the session gives {value=%s error=%s output=%q}, the concatenation of fragments 1..%d as one script gives {value=%s error=%s output=%q} (noopt=%v)",
				k+1, ra.val, ra.err, ra.out, k+1, rb.val, rb.err, rb.out, noopt), det(nil))
			return false
		}
		if ra.err != "" {
			failed = true
			break
		}
		if k == len(frags)-1 {
			// probe state on both sides
			p := probeFor(seq)
			pa, pan1 := a.run(p)
			pb, pan2 := b.run(p)
			c.AddTransitions(2)
			c.AddTraces(1)
			if pan1 != nil || pan2 != nil {
				c.Violation(key, fmt.Sprintf("Eval panics on the probe fragment: %v %v", pan1, pan2), det(map[string]any{"probe": p}))
				return false
			}
			if pa.val != pb.val || pa.err != pb.err || pa.out != pb.out {
				c.Violation(key, fmt.Sprintf("state differs after the last fragment: probe %s gives {value=%s error=%s} in the session and {value=%s error=%s} after the single script (noopt=%v)",
					p, pa.val, pa.err, pb.val, pb.err, noopt), det(map[string]any{"probe": p}))
				return false
			}
		}
	}
	if failed {
		c.Outcome("stops at a failing fragment")
	} else {
		c.Outcome("all fragments succeed")
	}
	return true
}
