// Package c06 decides C06: with recovery enabled, running a script never
// panics the host, and the VM can run further scripts correctly afterwards.
package c06

import (
	"errors"
	"fmt"
	"io/fs"
	"runtime/debug"
	"strings"
	"time"

	"github.com/ozanh/ugo"
	ujson "github.com/ozanh/ugo/stdlib/json"
	"github.com/ozanh/ugo/token"

	"verif/internal/fw"
	"verif/internal/run"
	"verif/internal/uv"
)

func init() {
	fw.Register(&fw.Check{
		ID:    "C06",
		Level: "fault_enumeration",
		Rule: "fault = failure kind (19: division/remainder by zero, negative shift, index and slice out of range, call of a non-callable, wrong argument count, throw, Go callback panicking with string/error/runtime error, " +
			"callback panicking after re-entering the VM through an Invoker, object whose IndexGet/Iterate/BinaryOp/Call/String panics, unbounded recursion, recursion with 200 locals, literal overflowing the value stack) " +
			"x value-stack fill at the instant of failure (K preceding elements of an enclosing literal, K in {0, 1, 1000, 2020..2047}) x call depth (1, 2, 1019..1023 frames of a zero-slot recursion) " +
			"x handler context (none, try-catch, try-finally, inside catch, inside finally, handler in a caller, inside a callback's child VM, inside a module body); quick = stack fill {0, 2040..2047} x depth {1, 1022, 1023}. " +
			"Oracle: nothing escapes Run as a panic; Run returns a value xor an error; an ordinary error inside try-catch reaches the catch block; then, on the same VM, the same script gives the same outcome again and three probe scripts give their known results. " +
			"non-trivial = the fault is a real Go panic (callback/object panic, stack index out of range) rather than a returned error",
		Run:       run6,
		MarkCases: true,
	})
}

// badErr is a host error type that embeds ObjectImpl without overriding String (which panics by design).
type badErr struct{ ugo.ObjectImpl }

func (*badErr) Error() string { panic("badErr.Error") }

// bad is an object whose methods panic.
type bad struct{ ugo.ObjectImpl }

func (*bad) TypeName() string { return "bad" }
func (*bad) String() string   { panic("bad.String") }
func (*bad) IndexGet(ugo.Object) (ugo.Object, error) {
	panic(errors.New("bad.IndexGet"))
}
func (*bad) CanIterate() bool      { return true }
func (*bad) Iterate() ugo.Iterator { panic("bad.Iterate") }
func (*bad) CanCall() bool         { return true }
func (*bad) IsFalsy() bool         { return false }
func (*bad) Equal(ugo.Object) bool { return false }
func (*bad) Call(...ugo.Object) (ugo.Object, error) {
	var m map[string]int
	m["x"] = 1 // runtime error: assignment to entry in nil map
	return nil, nil
}
func (*bad) BinaryOp(token.Token, ugo.Object) (ugo.Object, error) { panic("bad.BinaryOp") }

type kind struct {
	name      string
	expr      string // expression that fails when evaluated
	mustCatch bool   // an ordinary error: a surrounding try-catch must see it
	goPanic   bool
	overflow  bool
}

var kinds = []kind{
	{"div-zero", "1 / zero", true, false, false},
	{"rem-zero", "1 % zero", true, false, false},
	{"neg-shift", "1 << neg", true, false, false},
	{"index-range", "[1][five]", true, false, false},
	{"slice-range", `"abc"[1:five*20]`, true, false, false},
	{"not-callable", "zero()", true, false, false},
	{"arg-count", "two(1)", true, false, false},
	{"throw", `thrower()`, true, false, false},
	{"cb-panic-string", `PANIC("s")`, false, true, false},
	{"cb-panic-error", `PANIC("e")`, false, true, false},
	{"cb-panic-runtime", `PANIC("r")`, false, true, false},
	// panic values that are errors whose own methods panic: whatever turns the recovered value into a script error
	// must not call them unprotected inside the recover handler
	{"cb-panic-nil-patherror", `PANIC("n")`, false, true, false},
	{"cb-panic-nil-runtimeerror", `PANIC("q")`, false, true, false},
	{"cb-panic-error-object", `PANIC("o")`, false, true, false},
	{"cb-panic-after-invoke", `PANICAFTER(func() { return 1 })`, false, true, false},
	{"obj-indexget", "BAD.x", false, true, false},
	{"obj-iterate", "iterBad()", false, true, false},
	{"obj-binop", "BAD + 1", false, true, false},
	{"obj-call", "BAD()", false, true, false},
	{"obj-string", "string(BAD)", false, true, false},
	// a panicking object handed to the methods of a container that takes a lock
	{"syncmap-get-badkey", "SM[BAD]", false, true, false},
	{"syncmap-set-badkey", "smset()", false, true, false},
	{"syncmap-iterate-bad", "smiter()", false, true, false},
	// the container itself as (part of) the key: turning the key into text takes the container's lock again
	{"syncmap-set-selfkey", "smself(1)", false, false, false},
	{"syncmap-delete-selfkey", "smself(2)", false, false, false},
	{"syncmap-get-selfkey", "smself(3)", false, false, false},
	{"syncmap-set-nested-selfkey", "smself(4)", false, false, false},
	{"recursion-unbounded", "rec()", false, false, true},
	{"recursion-200-locals", "fat(1)", false, false, true},
	// the frame limit is reached before the value-stack limit (<= 2 slots per activation) and the overflow error is
	// intercepted by a handler inside the recursive function itself
	{"recursion-caught-inside", "rcatch()", false, false, true},
	{"recursion-finally-inside", "rfin()", false, false, true},
}

func prelude() string {
	var fat strings.Builder
	fat.WriteString("var fat; fat = func(a) { ")
	for i := 0; i < 200; i++ {
		fmt.Fprintf(&fat, "v%d := a; ", i)
	}
	fat.WriteString("return fat(v0) + v199 }; ")
	return "global (L, PANIC, PANICAFTER, BAD, CB, SM); smset := func() { SM[BAD] = 1; return 1 }; smiter := func() { for k, v in SM { x := BAD.x }; return 1 }; smself := func(w) { if w == 1 { kk := string(SM); SM[SM] = 1; delete(SM, kk) } else if w == 2 { delete(SM, SM) } else if w == 3 { return SM[SM] } else { kk := string([SM, {k: SM}]); SM[[SM, {k: SM}]] = 1; delete(SM, kk) }; return 1 }; zero := 0; neg := -1; five := 5; o := 1; two := func(a, b) { return a }; thrower := func() { throw \"t\" }; " +
		"iterBad := func() { for v in BAD { return v }; return 0 }; var rec; rec = func() { return rec() + 1 }; var rcatch; rcatch = func() { try { return rcatch() + 1 } catch { return 0 } }; var rfin; rfin = func() { try { return rfin() + 1 } finally { zero = 0 } }; " + fat.String()
}

func globals() ugo.Map {
	return ugo.Map{
		"PANIC": &ugo.Function{Name: "PANIC", Value: func(args ...ugo.Object) (ugo.Object, error) {
			switch fmt.Sprint(args[0]) {
			case "e":
				panic(errors.New("panic with an error value"))
			case "r":
				var a []int
				_ = a[3]
			case "n":
				var pe *fs.PathError
				panic(error(pe)) // Error() dereferences nil
			case "q":
				var re *ugo.RuntimeError
				panic(error(re))
			case "o":
				panic(error(&badErr{}))
			}
			panic("panic with a string")
		}},
		"PANICAFTER": &ugo.Function{Name: "PANICAFTER", ValueEx: func(c ugo.Call) (ugo.Object, error) {
			inv := ugo.NewInvoker(c.VM(), c.Get(0))
			inv.Acquire()
			_, _ = inv.Invoke()
			panic("panic after re-entering the VM")
		}},
		"CB": &ugo.Function{Name: "CB", ValueEx: func(c ugo.Call) (ugo.Object, error) {
			inv := ugo.NewInvoker(c.VM(), c.Get(0))
			inv.Acquire()
			defer inv.Release()
			return inv.Invoke()
		}},
		"BAD": &bad{},
		"SM":  curSM,
	}
}

// curSM is the SyncMap shared by all runs of the case being evaluated (a lock it leaks is met by the later runs).
var curSM = &ugo.SyncMap{Value: ugo.Map{"k": ugo.Int(1)}}

type context struct {
	name  string
	catch bool // the failure is directly inside a try with catch (in the same or a calling function)
	wrap  func(stmt string) (main string, module string)
}

var contexts = []context{
	{"none", false, func(s string) (string, string) { return s, "" }},
	{"try-catch", true, func(s string) (string, string) { return "try { " + s + " } catch e { L(\"caught\") }", "" }},
	{"try-finally", false, func(s string) (string, string) { return "try { " + s + " } finally { L(\"finally\") }", "" }},
	{"in-catch", false, func(s string) (string, string) { return "try { throw \"first\" } catch e { " + s + " }", "" }},
	{"in-finally", false, func(s string) (string, string) { return "try { L(\"body\") } finally { " + s + " }", "" }},
	{"handler-in-caller", true, func(s string) (string, string) {
		return "h := func() { " + s + "; return 1 }; try { h() } catch e { L(\"caught\") }", ""
	}},
	{"in-callback-child-vm", false, func(s string) (string, string) { return "CB(func() { " + s + "; return 1 })", "" }},
	{"callback-inside-try", true, func(s string) (string, string) {
		return "try { CB(func() { " + s + "; return 1 }) } catch e { L(\"caught\") }", ""
	}},
	{"in-module-body", false, func(s string) (string, string) { return "m := import(\"fm\")", s + "; return 1" }},
}

func fills(thorough bool) []int {
	if !thorough {
		return []int{0, 2040, 2041, 2042, 2043, 2044, 2045, 2046, 2047}
	}
	out := []int{0, 1, 1000}
	for k := 2020; k <= 2047; k++ {
		out = append(out, k)
	}
	return out
}

func depths(thorough bool) []int {
	if !thorough {
		return []int{1, 1022, 1023}
	}
	return []int{1, 2, 1019, 1020, 1021, 1022, 1023}
}

// failStmt builds the failing statement: the failing expression as last element of a literal with k preceding
// non-constant elements, evaluated at the bottom of a recursion d frames deep.
func failStmt(k kind, fill, depth int) string {
	e := k.expr
	if fill > 0 {
		e = "[" + strings.Repeat("o, ", fill) + e + "]"
	}
	if depth <= 1 {
		return "x := " + e
	}
	// zero-slot recursion: the counter lives in a captured variable
	return fmt.Sprintf("n := %d; var g; g = func() { if n == 0 { return %s }; n--; return [g()] }; x := g()", depth-1, e)
}

var probes = []struct {
	src  string
	args []ugo.Object
	want string // value, or "ERR <name>"
}{
	{"param a; return 1 / a", []ugo.Object{ugo.Int(0)}, "ERR ZeroDivisionError"},
	{"param a; var (f, f2); f = func(n) { if n == 0 { return 1 / a }; return f2(n) }; f2 = func(n) { return [f(n-1)] }; return f(5)", []ugo.Object{ugo.Int(0)}, "ERR ZeroDivisionError"},
	{"param a; x := a * 2; f := func(y) { return y + x }; return f(1)", []ugo.Object{ugo.Int(20)}, "41"},
	{"r := []; try { r = append(r, 1); throw \"e\" } catch { r = append(r, 2) } finally { r = append(r, 3) }; return r", nil, "[1, 2, 3]"},
	{"var s; s = func(n) { if n == 0 { return 0 }; return n + s(n-1) }; a := [1, 2, 3]; for i, v in a { a[i] = v * 2 }; return [s(300), a]", nil, "[45150, [2, 4, 6]]"},
	{"param a; f1 := func() { return 1 / a }; return f1()", []ugo.Object{ugo.Int(0)}, "ERR ZeroDivisionError"},
	{"param a; f1 := func() { return 1 / a }; f2 := func() { return [f1()] }; return f2()", []ugo.Object{ugo.Int(0)}, "ERR ZeroDivisionError"},
	{"param a; f1 := func() { return 1 / a }; f2 := func() { return [f1()] }; f3 := func() { return [f2()] }; try { f3() } catch e { return \"main caught\" }; return 0", []ugo.Object{ugo.Int(0)}, "\"main caught\""},
	{"global SM; SM.w = 5; SM.w2 = SM.w + SM.k; delete(SM, \"w\"); return [SM.w2, len(SM)]", nil, "[6, 2]"},
}

func run6(c *fw.Ctx) {
	// a runaway Go recursion dies at 64 MiB of stack instead of 1 GiB
	debug.SetMaxStack(64 << 20)
	var probeBC []*ugo.Bytecode
	for _, p := range probes {
		bc, err := ugo.Compile([]byte(p.src), ugo.CompilerOptions{})
		if err != nil {
			c.Infra("probe does not compile: %v", err)
			return
		}
		probeBC = append(probeBC, bc)
	}
	pre := prelude()
	for _, k := range kinds {
		c.Family(k.name, "stack fill x call depth x handler context")
		for _, fill := range fills(c.Thorough()) {
			for _, depth := range depths(c.Thorough()) {
				for _, cx := range contexts {
					if !c.Next() {
						continue
					}
					stmt := failStmt(k, fill, depth)
					mainBody, mod := cx.wrap(stmt)
					src := pre + mainBody + "; L(\"after\"); return \"done\""
					var mods map[string]string
					if mod != "" {
						mods = map[string]string{"fm": pre + mod}
					}
					key := fmt.Sprintf("%s fill=%d depth=%d ctx=%s", k.name, fill, depth, cx.name)
					one(c, key, src, mods, k, cx, probeBC, fill > 1000 || depth > 2)
				}
			}
		}
	}
	// self-referential containers handed to the builtins and operators that walk a value recursively: the walk must end
	// in an error (or a value), not in a Go stack overflow, which no recovery can intercept (the worker process dies; the
	// framework attributes the death to the marked case)
	c.Family("cyclic-values", "array and map that contain themselves x string / copy / == / sprintf / json-free printing, at top level and inside try-catch")
	cyc := "cyc := [0]; cyc[0] = cyc; cycm := {}; cycm.self = cycm; cyc2 := [0]; cyc2[0] = cyc2; "
	for _, e := range []string{"string(cyc)", "string(cycm)", "copy(cyc)", "copy(cycm)", "cyc == cyc2", "sprintf(\"%v\", cyc)", "len(cyc) + len(cycm)"} {
		for ci, cx := range contexts[:2] {
			if !c.Next() {
				continue
			}
			_ = ci
			c.Checkpoint()
			mainBody, _ := cx.wrap("x := " + e)
			src := pre + cyc + mainBody + "; L(\"after\"); return \"done\""
			one(c, fmt.Sprintf("cyclic expr=%s ctx=%s", e, cx.name), src, nil, kind{name: "cyclic", goPanic: true}, cx, probeBC, true)
		}
	}
	// the json module walks values too: it detects cycles through arrays, maps and pointers; an encoderOptions object
	// (json.Quote, json.NoQuote, ...) can hold itself, directly or through a container
	cyco := "json := import(\"json\"); zero10 := 10.0; cyco := json.Quote(1); cyco.Value = cyco; cyco2 := json.NoEscape(1); cyca := [cyco2]; cyco2.Value = cyca; "
	curMM = ugo.NewModuleMap().AddBuiltinModule("json", ujson.Module)
	// (and a failure below a SyncMap that json walks under the map's lock: the map must be usable afterwards)
	cyco += "smjf := func() { kk := \"inf\"; SM[kk] = 1e308 * zero10; r := json.Marshal(SM); delete(SM, kk); SM.after = 1; delete(SM, \"after\"); return isError(r) }; "
	for _, e := range []string{"json.Marshal(cyc)", "json.Marshal(cycm)", "json.Marshal(cyco)", "json.Marshal(cyca)", "json.Marshal(cyco2)", "json.MarshalIndent(cyco, \"\", \" \")", "smjf()"} {
		for _, cx := range contexts[:2] {
			if !c.Next() {
				continue
			}
			c.Checkpoint()
			mainBody, _ := cx.wrap("x := " + e)
			src := pre + cyc + cyco + mainBody + "; L(\"after\"); return \"done\""
			one(c, fmt.Sprintf("cyclic expr=%s ctx=%s", e, cx.name), src, nil, kind{name: "cyclic", goPanic: true}, cx, probeBC, true)
		}
	}
	curMM = nil
	// literal that overflows the value stack by itself
	c.Family("literal-overflow", "array/map literals and call arguments of n non-constant elements, n around the 2048-slot limit, in every handler context")
	for _, n := range []int{2030, 2040, 2044, 2045, 2046, 2047, 2048, 2049, 2100, 3000} {
		for form := 0; form < 3; form++ {
			for _, cx := range contexts {
				if !c.Next() {
					continue
				}
				var e string
				switch form {
				case 0:
					e = "[" + strings.Repeat("o, ", n-1) + "o]"
				case 1:
					var sb strings.Builder
					sb.WriteString("{")
					for i := 0; i < n/2; i++ {
						fmt.Fprintf(&sb, "k%d: o, ", i)
					}
					sb.WriteString("z: o}")
					e = sb.String()
				case 2:
					if n > 255 {
						e = "id2(" + strings.Repeat("[o, o, o, o, o, o, o, o], ", 250) + "[" + strings.Repeat("o, ", n-2001) + "o])"
					}
				}
				if e == "" {
					continue
				}
				mainBody, mod := cx.wrap("x := " + e)
				src := pre + "id2 := func(...a) { return len(a) }; " + mainBody + "; L(\"after\"); return \"done\""
				var mods map[string]string
				if mod != "" {
					mods = map[string]string{"fm": pre + "id2 := func(...a) { return len(a) }; " + mod}
				}
				one(c, fmt.Sprintf("literal-overflow n=%d form=%d ctx=%s", n, form, cx.name), src, mods, kind{name: "literal-overflow", overflow: true}, cx, probeBC, true)
			}
		}
	}
}

type result struct {
	val   ugo.Object
	err   error
	panic any
	log   []string
}

func (r result) key() string {
	if r.panic != nil {
		return "PANIC"
	}
	e := ""
	if r.err != nil {
		e = uv.ErrName(r.err)
		if e == "" {
			e = "go-error"
		}
	}
	v := ""
	if r.val != nil {
		v = uv.Repr(r.val)
	}
	return fmt.Sprintf("%s|%s|%v", v, e, r.log)
}

func runOn(vm *ugo.VM, args []ugo.Object) (r result) {
	var log []string
	g := globals()
	g["L"] = &ugo.Function{Name: "L", Value: func(a ...ugo.Object) (ugo.Object, error) {
		log = append(log, fmt.Sprint(a[0]))
		return ugo.Undefined, nil
	}}
	done := make(chan result, 1)
	go func() {
		var rr result
		hung := run.Guard(vm, func() {
			defer func() {
				if p := recover(); p != nil {
					rr.panic = p
				}
			}()
			rr.val, rr.err = vm.Run(g, args...)
		})
		if hung {
			rr.err = fmt.Errorf("hung: %w", rr.err)
		}
		done <- rr
	}()
	select {
	case r = <-done:
		r.log = log
	case <-time.After(2*run.Timeout + 5*time.Second):
		// not even the abort of the watchdog ends the run: the goroutine is blocked (e.g. on a lock that an earlier,
		// recovered panic left locked); it is abandoned
		r.err = errBlocked
	}
	return
}

var errBlocked = errors.New("blocked: Run does not return and does not react to Abort")

// curMM, when set, is the module map of the case being run (builtin modules; overrides mods).
var curMM *ugo.ModuleMap

func one(c *fw.Ctx, key, src string, mods map[string]string, k kind, cx context, probeBC []*ugo.Bytecode, nearLimit bool) {
	if c.Skip(key) {
		return
	}
	c.Mark(key)
	bc, err, pan := run.Compile(src, run.Options{Modules: mods, ModuleMap: curMM})
	if pan != "" {
		c.Violation(key, "compiler panics: "+pan, nil)
		return
	}
	if err != nil {
		// e.g. a literal beyond the operand width: a compile error is a legitimate outcome
		c.Count("compile_error", 1)
		return
	}
	if k.goPanic || k.overflow {
		c.Nontrivial()
	}
	det := map[string]any{"program_tail": tail(src), "kind": k.name, "context": cx.name}
	curSM = &ugo.SyncMap{Value: ugo.Map{"k": ugo.Int(1)}}
	vm := ugo.NewVM(bc).SetRecover(true)
	r1 := runOn(vm, nil)
	if r1.err == errBlocked {
		c.Violation(key, "Run neither returns nor reacts to Abort", det)
		return
	}
	c.AddEval(1)
	c.Sample(map[string]any{"case": key, "outcome": r1.key()})
	if r1.panic != nil {
		c.Violation(key, fmt.Sprintf("a panic escapes Run although recovery is enabled: %v", r1.panic), det)
		return
	}
	if (r1.val == nil) == (r1.err == nil) {
		c.Violation(key, fmt.Sprintf("Run returns value %v and error %v (exactly one expected)", r1.val, r1.err), det)
		return
	}
	if r1.err != nil && strings.HasPrefix(r1.err.Error(), "hung") {
		c.Violation(key, "the script does not terminate (aborted by the watchdog)", det)
		return
	}
	// (near the stack or frame limit the failure may legitimately be the stack overflow itself, which no handler intercepts)
	if cx.catch && k.mustCatch && !nearLimit {
		if r1.err != nil || !contains(r1.log, "caught") || !contains(r1.log, "after") {
			c.Violation(key, fmt.Sprintf("an ordinary runtime error inside try-catch did not reach the catch block: log=%v err=%.200v", r1.log, r1.err), det)
			return
		}
	}
	c.Outcome(outcomeClass(r1))
	// same script again on the same VM: same outcome
	r2 := runOn(vm, nil)
	if r2.err == errBlocked {
		c.Violation(key, "second run on the same VM: Run neither returns nor reacts to Abort (a lock was left locked by the recovered failure?)", det)
		return
	}
	if r2.panic != nil {
		c.Violation(key, fmt.Sprintf("second run on the same VM: a panic escapes: %v", r2.panic), det)
		return
	}
	if r2.key() != r1.key() {
		c.Violation(key, fmt.Sprintf("second run of the same script on the same VM differs: first %s, second %s", r1.key(), r2.key()), det)
		return
	}
	// probes on the same VM
	for i, pb := range probeBC {
		vm.SetBytecode(pb)
		rp := runOn(vm, probes[i].args)
		if rp.err == errBlocked {
			c.Violation(key, fmt.Sprintf("after the failing run probe %d neither returns nor reacts to Abort (a lock was left locked by the recovered failure?)", i), det)
			return
		}
		got := ""
		if rp.err != nil {
			got = "ERR " + uv.ErrName(rp.err)
		} else if rp.val != nil {
			got = uv.Repr(rp.val)
		}
		if rp.panic != nil || got != probes[i].want {
			c.Violation(key, fmt.Sprintf("after the failing run the VM does not run probe %d correctly: value %v error %v panic %v (want %s)", i, rp.val, rp.err, rp.panic, probes[i].want), det)
			return
		}
	}
}

func outcomeClass(r result) string {
	if r.err != nil {
		n := uv.ErrName(r.err)
		if n == "" {
			n = "go-error"
		}
		return "error:" + n
	}
	return "value"
}

func contains(l []string, s string) bool {
	for _, x := range l {
		if x == s {
			return true
		}
	}
	return false
}

func tail(s string) string {
	if i := strings.Index(s, "return fat(v0) + v199 }; "); i >= 0 {
		s = s[i+len("return fat(v0) + v199 }; "):]
	}
	if len(s) > 400 {
		return s[:200] + " … " + s[len(s)-180:]
	}
	return s
}
