package c02

import (
	"fmt"

	"verif/internal/fw"
	"verif/internal/run"
)

// Family "closure-instances": one function literal evaluated several times gives several closures with the same code
// and their own captured variables. A call from one instance to another - also in tail position, where a SELF call
// would re-use the frame - runs the callee with the callee's variables. Expected values are closed formulas.
var instPrograms = []struct{ name, src, want string }{
	{"tail call to a sibling instance", `mk := func(tag) { return func(next, n) { if next { return next(undefined, n + 1) }; return [tag, n] } }; a := mk("a"); b := mk("b"); return [a(b, 0), b(a, 5), a(undefined, 9)]`, `[["b", 1], ["a", 6], ["a", 9]]`},
	{"non-tail call to a sibling instance", `mk := func(tag) { return func(next, n) { if next { r := next(undefined, n + 1); return [tag, r] }; return [tag, n] } }; a := mk("a"); b := mk("b"); return a(b, 0)`, `["a", ["b", 1]]`},
	{"chain of three instances in tail position", `mk := func(tag) { return func(chain, acc) { acc = acc + tag; if len(chain) > 0 { return chain[0](chain[1:], acc) }; return acc } }; a := mk("a"); b := mk("b"); c := mk("c"); return a([b, c, a, b], "")`, `"abcab"`},
	{"instances with counters, tail calls update the callee's counter", `mk := func() { n := 0; return func(other, k) { n += k; if other { return other(undefined, 10) }; return n } }; a := mk(); b := mk(); r1 := a(b, 1); r2 := a(undefined, 0); r3 := b(undefined, 0); return [r1, r2, r3]`, `[10, 1, 10]`},
	{"self tail call of an instance keeps its own variables", `mk := func(tag) { var f; f = func(n) { if n > 0 { return f(n - 1) }; return tag }; return f }; a := mk("a"); b := mk("b"); return [a(3), b(3000), a(0)]`, `["a", "b", "a"]`},
	{"instance passed to itself and to a sibling in a loop", `mk := func(tag) { return func(g, n) { if n == 0 { return tag }; return g(g, n - 1) } }; a := mk("a"); b := mk("b"); r := []; for i := 0; i < 3; i++ { r = append(r, a(b, i), b(a, i)) }; return r`, `["a", "b", "b", "a", "b", "a"]`},
	{"variadic instances in tail position", `mk := func(tag) { return func(next, ...rest) { if next { return next(undefined, tag, ...rest) }; return rest } }; a := mk("a"); b := mk("b"); return a(b, 1, 2)`, `["a", 1, 2]`},
}

func famInstances(c *fw.Ctx) {
	for _, p := range instPrograms {
		if !c.Next() {
			continue
		}
		key := "closure-instances " + p.name
		if c.Skip(key) {
			continue
		}
		c.AddStates(1)
		c.Nontrivial()
		for _, noopt := range []bool{false, true} {
			o := run.Source(p.src, run.Options{NoOptimize: noopt})
			c.AddTraces(1)
			c.Sample(map[string]any{"program": p.src, "expected": p.want, "implementation": o.String()})
			if got := o.String(); got != "OK "+p.want+" log=[]" {
				c.Violation(key, fmt.Sprintf("expected OK %s, got %s", p.want, got), map[string]any{"program": p.src, "no_optimize": noopt})
				break
			}
		}
	}
}
