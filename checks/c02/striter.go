package c02

import (
	"fmt"
	"strconv"
	"strings"

	"verif/internal/fw"
	"verif/internal/run"
)

// Family "string-iteration": `for i, c in s` over every string of <= 3 (thorough 4) characters from an alphabet with
// one character of each UTF-8 width plus U+FFFD (a valid character, the one decoders also use as their error value).
// The model is the documented one - "index and element" - i.e. the byte offset at which each character starts and the
// character, in order, all of them: exactly Go's `for i, c := range s` for valid UTF-8. Observed through four loop
// forms (key and value, value only, key only with a slice taken at the key, closures capturing the per-iteration key
// and value) and with break/continue.
var iterAlphabet = []rune{'a', 'é', '€', '😀', '�'}

func famStringIteration(c *fw.Ctx) {
	maxLen := 3
	if c.Thorough() {
		maxLen = 4
	}
	var strs []string
	var gen func(prefix string, n int)
	gen = func(prefix string, n int) {
		strs = append(strs, prefix)
		if n == maxLen {
			return
		}
		for _, r := range iterAlphabet {
			gen(prefix+string(r), n+1)
		}
	}
	gen("", 0)
	quote := func(s string) string { return strconv.Quote(s) }
	for _, s := range strs {
		for form := 0; form < 5; form++ {
			if !c.Next() {
				continue
			}
			var src string
			var want []string
			switch form {
			case 0:
				src = "r := []; for i, ch in " + quote(s) + " { r = append(r, i, int(ch)) }; return r"
				for i, ch := range s {
					want = append(want, fmt.Sprint(i), fmt.Sprint(int(ch)))
				}
			case 1:
				src = "r := []; for ch in " + quote(s) + " { r = append(r, int(ch)) }; return r"
				for _, ch := range s {
					want = append(want, fmt.Sprint(int(ch)))
				}
			case 2:
				// the key is usable as a byte offset into the string
				src = "s := " + quote(s) + "; r := []; for i, _ in s { r = append(r, len(s[i:])) }; return r"
				for i := range s {
					want = append(want, fmt.Sprint(len(s[i:])))
				}
			case 3:
				src = "fs := []; for i, ch in " + quote(s) + " { fs = append(fs, func() { return i * 1000000000 + int(ch) }) }; r := []; for f in fs { r = append(r, f()) }; return r"
				for i, ch := range s {
					want = append(want, fmt.Sprint(i*1000000000+int(ch)))
				}
			case 4:
				// continue on the first character, break after the third
				src = "r := []; n := 0; for i, ch in " + quote(s) + " { n++; if n == 1 { continue }; r = append(r, i, int(ch)); if n == 3 { break } }; return r"
				n := 0
				for i, ch := range s {
					n++
					if n == 1 {
						continue
					}
					want = append(want, fmt.Sprint(i), fmt.Sprint(int(ch)))
					if n == 3 {
						break
					}
				}
			}
			key := fmt.Sprintf("string-iteration form=%d s=%+q", form, s)
			if c.Skip(key) {
				continue
			}
			c.AddStates(1)
			if len(s) > len([]rune(s)) {
				c.Nontrivial()
			}
			exp := "[" + strings.Join(want, ", ") + "]"
			for _, noopt := range []bool{false, true} {
				o := run.Source(src, run.Options{NoOptimize: noopt})
				c.AddTraces(1)
				c.Sample(map[string]any{"program": src, "model": exp, "implementation": o.String()})
				if o.Val != exp || o.ErrName != "" || o.Panic != "" || o.CompileErr != "" {
					c.Violation(key, fmt.Sprintf("for-in over the string %+q: model (byte offset and character of every character) %s, implementation %s", s, exp, o.String()),
						map[string]any{"program": src, "no_optimize": noopt})
					break
				}
			}
		}
	}
}
