// Package c02 decides C02 (compiled execution follows the documented
// source-level semantics) by enumerating eight families of small programs and
// comparing the implementation with the reference interpreter on every one.
package c02

import (
	"fmt"
	"time"

	"github.com/ozanh/ugo"

	"verif/internal/cmpx"
	"verif/internal/fw"
	"verif/internal/gen"
	"verif/internal/ref"
	"verif/internal/run"
)

func init() {
	fw.Register(&fw.Check{
		ID:    "C02",
		Level: "model_checking",
		Rule: "eight program families (scope, closure, call, order, loop, tail, const/iota, destructuring), each enumerated completely up to its own size bound; " +
			"every program is executed by the reference interpreter (internal/ref, written from docs/tutorial.md and docs/destructuring.md) and by the VM with the optimizer on and off; " +
			"observation = returned value, ordered probe log, uncaught error name (+message where documented); states = distinct programs, transitions = reference steps, " +
			"traces = implementation runs compared; non-trivial = the program has at least two interacting features of its family (closure+assignment, nested scope+reuse, spread+variadic, >=2 probes, ...)",
		Run: runAll,
		Assumptions: []string{
			"reference interpreter internal/ref; numeric tower beyond int is C15's business and is not modelled",
			"map iteration order is never observed",
		},
	})
}

type emitFn func(body []gen.Stmt, nontrivial bool)

func runAll(c *fw.Ctx) {
	emit := func(args []ugo.Object, rargs []ref.V) emitFn {
		return func(body []gen.Stmt, nt bool) {
			if !c.Next() {
				return
			}
			one(c, body, nt, args, rargs)
		}
	}
	e := emit(nil, nil)
	c.Family("call", "params 0-3 x variadic x args 0-4 x spread len none/0-3 x callee kind")
	famCall(c, e)
	c.Family("tail", "self calls in and out of tail position, arities, variadic/spread, depth 0..5 and 5000")
	famTail(c, e)
	c.Family("order", "probe in every operand position of expression trees of depth <= 2 and of assignment/destructuring targets")
	famOrder(c, e)
	c.Family("scope", "statement sequences over 2 names with blocks, if, loops, closures capturing and slot re-use")
	famScope(c, e)
	c.Family("closure", "capture of params/locals/loop variables/free-of-free, shared counters, per-iteration variables")
	famClosure(c, e)
	c.Family("loop", "for / for-cond / for-in with break/continue, nesting <= 2, captured per-iteration variables")
	famLoop(c, e)
	c.Family("const", "const groups with iota, implicit repetition, blank, shadowed iota")
	famConst(c, e)
	c.Family("destructuring", "1-3 targets x RHS array length 0-3 / non-array x define/assign/selector targets")
	famDestr(c, e)
	c.Family("string-iteration", "for-in over all strings of <= 3 (thorough 4) characters of widths 1-4 and U+FFFD x 5 loop forms; model: Go's range")
	famStringIteration(c)
	c.Family("closure-instances", "7 programs in which instances of one function literal call each other (tail and non-tail, variadic, in loops); optimizer on/off")
	famInstances(c)
}

// Corpus yields the source text of every program of the tier (no arguments needed).
func Corpus(thorough bool, yield func(src string)) {
	c := &fw.Ctx{Tier: "quick", NShards: 1, Deadline: time.Now().Add(time.Hour)}
	if thorough {
		c.Tier = "thorough"
	}
	e := func(body []gen.Stmt, nt bool) { yield(gen.Source(append([]gen.Stmt{glob}, body...))) }
	famCall(c, e)
	famTail(c, e)
	famOrder(c, e)
	famScope(c, e)
	famClosure(c, e)
	famLoop(c, e)
	famConst(c, e)
	famDestr(c, e)
}

var glob = gen.Global{Names: []string{"L"}}

func one(c *fw.Ctx, body []gen.Stmt, nt bool, args []ugo.Object, rargs []ref.V) {
	body = append([]gen.Stmt{glob}, body...)
	src := gen.Source(body)
	if c.Skip(src) {
		return
	}
	in := ref.New()
	in.MaxDepth = 6000
	in.MaxSteps = 2000000
	in.Args = rargs
	r := in.Run(&gen.Program{Main: body})
	if r.Unsupported != "" || r.Budget {
		c.Infra("reference cannot run generated program (%s budget=%v): %s", r.Unsupported, r.Budget, src)
		return
	}
	c.AddStates(1)
	c.AddTransitions(int64(in.Steps))
	if nt {
		c.Nontrivial()
	}
	c.Sample(map[string]any{"program": src, "reference": cmpx.RefString(r)})
	for _, noopt := range []bool{false, true} {
		o := run.Source(src, run.Options{NoOptimize: noopt, Args: args})
		c.AddTraces(1)
		if d := cmpx.Compare(r, o); d != "" {
			for i := 0; i < 4; i++ {
				// (the text of a disagreement may vary from run to run - Go stacks, addresses; unstable means that a
				// re-run AGREES with the reference)
				if cmpx.Compare(r, run.Source(src, run.Options{NoOptimize: noopt, Args: args})) == "" {
					c.Infra("unstable disagreement on %s", src)
					return
				}
			}
			c.Violation(src, d, map[string]any{"program": src, "no_optimize": noopt, "reference": cmpx.RefString(r), "implementation": o.String()})
			c.Outcome("disagree")
			return
		}
	}
	if r.ErrName != "" {
		c.Outcome("error:" + r.ErrName)
	} else {
		c.Outcome("value")
	}
}

// ---- helpers ------------------------------------------------------------------

func names(prefix string, n int) []string {
	out := make([]string, n)
	for i := range out {
		out[i] = fmt.Sprintf("%s%d", prefix, i)
	}
	return out
}

func nameExprs(ns []string) []gen.Expr {
	out := make([]gen.Expr, len(ns))
	for i, n := range ns {
		out[i] = gen.Name{N: n}
	}
	return out
}

func ints(from, n int) []gen.Expr {
	out := make([]gen.Expr, n)
	for i := range out {
		out[i] = gen.IntLit{V: int64(from + i)}
	}
	return out
}

func ret(x gen.Expr) gen.Stmt { return gen.Return{X: x} }
func def(n string, x gen.Expr) gen.Stmt {
	return gen.Define{Names: []string{n}, X: x}
}
func set(n string, x gen.Expr) gen.Stmt {
	return gen.Assign{T: []gen.Expr{gen.Name{N: n}}, Op: "=", X: x}
}
func fn(params []string, variadic bool, body ...gen.Stmt) gen.Expr {
	return gen.Func{Params: params, Variadic: variadic, Body: body}
}
func call(f string, args ...gen.Expr) gen.Expr { return gen.Call{Fn: gen.Name{N: f}, Args: args} }
func bin(op string, l, r gen.Expr) gen.Expr    { return gen.Bin{Op: op, L: l, R: r} }
func forN(v string, n int64, body ...gen.Stmt) gen.Stmt {
	return gen.For{Init: def(v, gen.IntLit{V: 0}), Cond: bin("<", gen.Name{N: v}, gen.IntLit{V: n}), Post: gen.IncDec{X: gen.Name{N: v}, Op: "++"}, Body: body}
}
func try(body []gen.Stmt, name string, catch []gen.Stmt) gen.Stmt {
	return gen.Try{Body: body, HasCatch: true, CatchName: name, Catch: catch}
}

// ---- family: call ---------------------------------------------------------------

func famCall(c *fw.Ctx, emit emitFn) {
	for np := 0; np <= 3; np++ {
		for _, variadic := range []bool{false, true} {
			if variadic && np == 0 {
				continue
			}
			for na := 0; na <= 4; na++ {
				for sp := -1; sp <= 3; sp++ { // -1: no spread
					for kind := 0; kind < 3; kind++ {
						ps := names("p", np)
						args := ints(1, na)
						if sp >= 0 {
							args = append(args, gen.Arr{E: ints(10, sp)})
						}
						var body []gen.Stmt
						callee := fn(ps, variadic, ret(gen.Arr{E: nameExprs(ps)}))
						switch kind {
						case 0:
							body = append(body, def("f", callee))
						case 1: // closure capturing a variable
							body = append(body, def("mk", fn([]string{"c"}, false, ret(fn(ps, variadic, ret(gen.Arr{E: append([]gen.Expr{gen.Name{N: "c"}}, nameExprs(ps)...)}))))),
								def("f", call("mk", gen.IntLit{V: 9})))
						case 2: // callee has more locals than params
							body = append(body, def("f", fn(ps, variadic, def("x", gen.IntLit{V: 7}), def("y", gen.IntLit{V: 8}), ret(gen.Arr{E: append(nameExprs(ps), gen.Name{N: "x"}, gen.Name{N: "y"})}))))
						}
						body = append(body, ret(gen.Call{Fn: gen.Name{N: "f"}, Args: args, Spread: sp >= 0}))
						emit(body, variadic || sp >= 0)
					}
				}
			}
		}
	}
	// spread of a non-array, call of non-callables, call result used as callee
	emit([]gen.Stmt{def("f", fn([]string{"a"}, false, ret(gen.Name{N: "a"}))), ret(gen.Call{Fn: gen.Name{N: "f"}, Args: []gen.Expr{gen.IntLit{V: 1}}, Spread: true})}, true)
	emit([]gen.Stmt{def("f", gen.IntLit{V: 3}), ret(call("f"))}, false)
	emit([]gen.Stmt{def("f", fn(nil, false, ret(fn([]string{"a"}, false, ret(bin("+", gen.Name{N: "a"}, gen.IntLit{V: 1})))))), ret(gen.Call{Fn: call("f"), Args: []gen.Expr{gen.IntLit{V: 4}}})}, true)
	// arguments are bound by value position even when the callee assigns its parameters
	emit([]gen.Stmt{def("f", fn([]string{"a", "b"}, false, set("a", gen.IntLit{V: 50}), ret(gen.Arr{E: []gen.Expr{gen.Name{N: "a"}, gen.Name{N: "b"}}}))),
		def("x", gen.IntLit{V: 1}), def("r", call("f", gen.Name{N: "x"}, gen.Name{N: "x"})), ret(gen.Arr{E: []gen.Expr{gen.Name{N: "r"}, gen.Name{N: "x"}}})}, true)
	// variadic array is fresh per call
	emit([]gen.Stmt{def("f", fn([]string{"v"}, true, ret(gen.Name{N: "v"}))), def("a", call("f", gen.IntLit{V: 1})), def("b", call("f", gen.IntLit{V: 2})), ret(gen.Arr{E: []gen.Expr{gen.Name{N: "a"}, gen.Name{N: "b"}}})}, true)
}

// ---- family: tail ---------------------------------------------------------------

func famTail(c *fw.Ctx, emit emitFn) {
	n := gen.Name{N: "n"}
	acc := gen.Name{N: "acc"}
	nm1 := bin("-", n, gen.IntLit{V: 1})
	isZero := bin("==", n, gen.IntLit{V: 0})
	depths := []int64{0, 1, 2, 5}
	type shape struct {
		name string
		fn   gen.Expr
		deep bool // true tail position: may run 5000 deep
		nt   bool
	}
	selfAcc := gen.Call{Fn: gen.Name{N: "f"}, Args: []gen.Expr{nm1, bin("+", acc, n)}}
	shapes := []shape{
		{"return-self", fn([]string{"n", "acc"}, false, gen.If{Cond: isZero, Then: []gen.Stmt{ret(acc)}}, ret(selfAcc)), true, true},
		{"return-self-in-else", fn([]string{"n", "acc"}, false, gen.If{Cond: isZero, Then: []gen.Stmt{ret(acc)}, HasElse: true, Else: []gen.Stmt{ret(selfAcc)}}), true, true},
		{"return-self-in-both-arms", fn([]string{"n", "acc"}, false, gen.If{Cond: isZero, Then: []gen.Stmt{ret(acc)}, HasElse: true,
			Else: []gen.Stmt{gen.If{Cond: bin("==", n, gen.IntLit{V: 1}), Then: []gen.Stmt{ret(gen.Call{Fn: gen.Name{N: "f"}, Args: []gen.Expr{gen.IntLit{V: 0}, bin("+", acc, gen.IntLit{V: 100})}})}, HasElse: true, Else: []gen.Stmt{ret(selfAcc)}}}}), true, true},
		{"discarded-self-call-last", fn([]string{"n", "acc"}, false, gen.If{Cond: isZero, Then: []gen.Stmt{ret(acc)}}, gen.ExprStmt{X: selfAcc}), false, true},
		{"discarded-self-call-then-bare-return", fn([]string{"n", "acc"}, false, gen.If{Cond: isZero, Then: []gen.Stmt{ret(acc)}}, gen.ExprStmt{X: selfAcc}, gen.Return{}), false, true},
		// both tail forms in one function: the frame re-used by a discarded self call is re-used again by a returned one
		// (and the other way round); the outermost form decides whether a value comes back
		{"discarded-then-returned", fn([]string{"n", "acc"}, false, gen.If{Cond: isZero, Then: []gen.Stmt{ret(acc)}}, gen.If{Cond: bin("==", n, gen.IntLit{V: 1}), Then: []gen.Stmt{ret(selfAcc)}}, gen.ExprStmt{X: selfAcc}), false, true},
		{"returned-then-discarded", fn([]string{"n", "acc"}, false, gen.If{Cond: isZero, Then: []gen.Stmt{ret(acc)}}, gen.If{Cond: bin("==", n, gen.IntLit{V: 1}), Then: []gen.Stmt{gen.ExprStmt{X: selfAcc}, gen.Return{}}}, ret(selfAcc)), false, true},
		{"alternating-forms", fn([]string{"n", "acc"}, false, gen.If{Cond: isZero, Then: []gen.Stmt{ret(acc)}}, gen.If{Cond: bin("==", bin("%", n, gen.IntLit{V: 2}), gen.IntLit{V: 0}), Then: []gen.Stmt{ret(selfAcc)}}, gen.ExprStmt{X: selfAcc}), false, true},
		{"return-self-plus-0", fn([]string{"n", "acc"}, false, gen.If{Cond: isZero, Then: []gen.Stmt{ret(acc)}}, ret(bin("+", selfAcc, gen.IntLit{V: 0}))), false, true},
		{"self-call-in-try", fn([]string{"n", "acc"}, false, gen.If{Cond: isZero, Then: []gen.Stmt{ret(acc)}},
			gen.Try{Body: []gen.Stmt{ret(selfAcc)}, HasFinally: true, Finally: []gen.Stmt{gen.ExprStmt{X: gen.L(1, n)}}}), false, true},
		{"self-call-after-try", fn([]string{"n", "acc"}, false, gen.If{Cond: isZero, Then: []gen.Stmt{ret(acc)}},
			gen.Try{Body: []gen.Stmt{gen.ExprStmt{X: gen.L(1, n)}}, HasFinally: true, Finally: []gen.Stmt{gen.ExprStmt{X: gen.L(2, n)}}}, ret(selfAcc)), true, true},
		{"through-captured-alias", fn([]string{"n", "acc"}, false, gen.If{Cond: isZero, Then: []gen.Stmt{ret(acc)}}, def("g", gen.Name{N: "f"}), ret(gen.Call{Fn: gen.Name{N: "g"}, Args: []gen.Expr{nm1, bin("+", acc, n)}})), true, true},
		{"more-locals-than-params", fn([]string{"n", "acc"}, false, def("a", bin("*", n, gen.IntLit{V: 2})), def("b", bin("+", gen.Name{N: "a"}, gen.IntLit{V: 1})),
			gen.If{Cond: isZero, Then: []gen.Stmt{ret(gen.Arr{E: []gen.Expr{acc, gen.Name{N: "a"}, gen.Name{N: "b"}}})}}, def("d", bin("+", acc, gen.Name{N: "b"})), ret(gen.Call{Fn: gen.Name{N: "f"}, Args: []gen.Expr{nm1, gen.Name{N: "d"}}})), true, true},
		{"locals-read-before-write", fn([]string{"n", "acc"}, false, gen.Var{N: "u"}, gen.If{Cond: isZero, Then: []gen.Stmt{ret(gen.Arr{E: []gen.Expr{acc, gen.Name{N: "u"}}})}}, set("u", n), ret(selfAcc)), true, true},
		{"captured-local-per-activation", fn([]string{"n", "acc"}, false, def("k", n), gen.Assign{T: []gen.Expr{gen.Name{N: "fs"}}, Op: "=", X: bin("+", gen.Name{N: "fs"}, gen.Arr{E: []gen.Expr{fn(nil, false, ret(gen.Name{N: "k"}))}})},
			gen.If{Cond: isZero, Then: []gen.Stmt{ret(acc)}}, ret(selfAcc)), true, true},
	}
	for _, sh := range shapes {
		ds := depths
		if sh.deep {
			ds = append(append([]int64{}, depths...), 5000)
		}
		for _, d := range ds {
			body := []gen.Stmt{gen.Var{N: "f"}, def("fs", gen.Arr{}), set("f", sh.fn), def("r", call("f", gen.IntLit{V: d}, gen.IntLit{V: 0}))}
			// observe the result and what every captured closure sees (only a few to keep it small)
			body = append(body, def("seen", gen.Arr{}))
			if sh.name == "captured-local-per-activation" && d <= 5 {
				body = append(body, gen.ForIn{V: "g", X: gen.Name{N: "fs"}, Body: []gen.Stmt{set("seen", bin("+", gen.Name{N: "seen"}, gen.Arr{E: []gen.Expr{call("g")}}))}})
			}
			body = append(body, ret(gen.Arr{E: []gen.Expr{gen.Name{N: "r"}, gen.Name{N: "seen"}}}))
			emit(body, sh.nt)
		}
	}
	// a frame re-used by a discarded self call is left by an error that an outer frame catches; afterwards other
	// functions are called at the same depth: they must return their values
	for _, depth := range []int64{0, 1, 2, 3} {
		for _, form := range []int{0, 1} {
			thrower := fn([]string{"n"}, false, gen.If{Cond: isZero, Then: []gen.Stmt{gen.Throw{X: gen.StrLit{V: "t"}}}}, gen.ExprStmt{X: call("g", nm1)})
			if form == 1 {
				thrower = fn([]string{"n"}, false, gen.If{Cond: isZero, Then: []gen.Stmt{gen.ExprStmt{X: bin("/", gen.IntLit{V: 1}, bin("-", n, n))}}}, gen.ExprStmt{X: call("g", nm1)}, gen.Return{})
			}
			body := []gen.Stmt{gen.Var{N: "g"}, set("g", thrower),
				def("h", fn([]string{"x"}, false, ret(bin("*", gen.Name{N: "x"}, gen.IntLit{V: 2})))),
				gen.Var{N: "fact"}, set("fact", fn([]string{"k"}, false, gen.If{Cond: bin("==", gen.Name{N: "k"}, gen.IntLit{V: 0}), Then: []gen.Stmt{ret(gen.IntLit{V: 1})}}, ret(bin("*", gen.Name{N: "k"}, call("fact", bin("-", gen.Name{N: "k"}, gen.IntLit{V: 1})))))),
				def("r", gen.Arr{}),
				gen.Try{Body: []gen.Stmt{gen.ExprStmt{X: call("g", gen.IntLit{V: depth})}}, HasCatch: true, CatchName: "e", Catch: []gen.Stmt{set("r", bin("+", gen.Name{N: "r"}, gen.Arr{E: []gen.Expr{gen.StrLit{V: "caught"}}}))}},
				set("r", bin("+", gen.Name{N: "r"}, gen.Arr{E: []gen.Expr{call("h", gen.IntLit{V: 21}), call("fact", gen.IntLit{V: 4}), call("h", gen.IntLit{V: 1})}})),
				ret(gen.Name{N: "r"})}
			emit(body, true)
			// the same inside a function (frames one deeper)
			emit([]gen.Stmt{ret(gen.Call{Fn: gen.Paren{X: fn(nil, false, body...)}})}, true)
		}
	}
	// variadic / spread self calls in tail position: parameters bound beyond the pushed arguments
	r := gen.Name{N: "r"}
	vshapes := []gen.Expr{
		fn([]string{"n", "r"}, true, gen.If{Cond: isZero, Then: []gen.Stmt{ret(r)}}, ret(gen.Call{Fn: gen.Name{N: "f"}, Args: []gen.Expr{nm1}})),
		fn([]string{"n", "r"}, true, gen.If{Cond: isZero, Then: []gen.Stmt{ret(r)}}, ret(gen.Call{Fn: gen.Name{N: "f"}, Args: []gen.Expr{nm1, r}, Spread: true})),
		fn([]string{"n", "r"}, true, gen.If{Cond: isZero, Then: []gen.Stmt{ret(r)}}, ret(gen.Call{Fn: gen.Name{N: "f"}, Args: []gen.Expr{gen.Arr{E: []gen.Expr{nm1}}}, Spread: true})),
		fn([]string{"n", "r"}, true, gen.If{Cond: isZero, Then: []gen.Stmt{ret(r)}}, ret(gen.Call{Fn: gen.Name{N: "f"}, Args: []gen.Expr{gen.Arr{E: []gen.Expr{nm1, gen.IntLit{V: 7}, gen.IntLit{V: 8}}}}, Spread: true})),
		fn([]string{"n", "r"}, true, gen.If{Cond: isZero, Then: []gen.Stmt{ret(r)}}, ret(gen.Call{Fn: gen.Name{N: "f"}, Args: []gen.Expr{nm1, n, n}})),
		fn([]string{"n", "a", "b"}, false, gen.If{Cond: isZero, Then: []gen.Stmt{ret(gen.Arr{E: []gen.Expr{gen.Name{N: "a"}, gen.Name{N: "b"}}})}}, ret(gen.Call{Fn: gen.Name{N: "f"}, Args: []gen.Expr{gen.Arr{E: []gen.Expr{nm1, gen.Name{N: "b"}, bin("+", gen.Name{N: "a"}, gen.Name{N: "b"})}}}, Spread: true})),
		fn([]string{"n", "a", "b"}, false, gen.If{Cond: isZero, Then: []gen.Stmt{ret(gen.Arr{E: []gen.Expr{gen.Name{N: "a"}, gen.Name{N: "b"}}})}}, ret(gen.Call{Fn: gen.Name{N: "f"}, Args: []gen.Expr{nm1, gen.Arr{E: []gen.Expr{gen.Name{N: "b"}, bin("+", gen.Name{N: "a"}, gen.Name{N: "b"})}}}, Spread: true})),
	}
	firsts := [][]gen.Expr{
		{gen.IntLit{V: 0}}, {gen.IntLit{V: 1}}, {gen.IntLit{V: 2}, gen.IntLit{V: 5}}, {gen.IntLit{V: 3}, gen.IntLit{V: 5}, gen.IntLit{V: 6}},
	}
	for _, sh := range vshapes {
		for _, a := range firsts {
			emit([]gen.Stmt{gen.Var{N: "f"}, set("f", sh), ret(gen.Call{Fn: gen.Name{N: "f"}, Args: a})}, true)
		}
	}
}

// ---- family: order --------------------------------------------------------------

type typ int

const (
	tInt typ = iota
	tArr
	tBool
)

type ogen struct{ k int64 }

func (g *ogen) probe(x gen.Expr) gen.Expr { g.k++; return gen.L(g.k, x) }

// exprs enumerates typed expression trees; every leaf is a probe. The probe
// numbers are assigned afterwards in source order by renumbering.
func exprs(t typ, depth int) []gen.Expr {
	var out []gen.Expr
	switch t {
	case tInt:
		out = append(out, gen.L(0, gen.IntLit{V: 1}))
		if depth == 0 {
			return out
		}
		ia, ib := exprs(tInt, depth-1), exprs(tInt, depth-1)
		for _, op := range []string{"+", "-", "*"} {
			for _, a := range ia {
				for _, b := range ib {
					out = append(out, gen.Bin{Op: op, L: a, R: b})
				}
			}
		}
		for _, a := range exprs(tArr, depth-1) {
			for _, i := range ia {
				out = append(out, gen.Index{X: a, I: gen.Bin{Op: "-", L: i, R: i}})
			}
		}
		for _, a := range ia {
			out = append(out, gen.Call{Fn: gen.L(0, gen.Name{N: "id"}), Args: []gen.Expr{a}})
			for _, b := range ib {
				out = append(out, gen.Call{Fn: gen.L(0, gen.Name{N: "add"}), Args: []gen.Expr{a, b}})
			}
		}
		for _, cnd := range exprs(tBool, depth-1) {
			for _, a := range ia {
				out = append(out, gen.Cond{C: cnd, A: a, B: gen.L(0, gen.IntLit{V: 2})})
			}
		}
	case tArr:
		out = append(out, gen.L(0, gen.Arr{E: []gen.Expr{gen.IntLit{V: 5}, gen.IntLit{V: 6}}}))
		if depth == 0 {
			return out
		}
		ia := exprs(tInt, depth-1)
		for _, a := range ia {
			for _, b := range ia {
				out = append(out, gen.Arr{E: []gen.Expr{a, b}})
			}
		}
	case tBool:
		out = append(out, gen.L(0, gen.BoolLit{V: true}), gen.L(0, gen.BoolLit{V: false}))
		if depth == 0 {
			return out
		}
		ia := exprs(tInt, depth-1)
		for _, a := range ia {
			for _, b := range ia {
				out = append(out, gen.Bin{Op: "<", L: a, R: b}, gen.Bin{Op: "==", L: a, R: b})
			}
		}
		ba := exprs(tBool, depth-1)
		for _, a := range ba {
			for _, b := range ba {
				out = append(out, gen.Logic{Op: "&&", L: a, R: b}, gen.Logic{Op: "||", L: a, R: b})
			}
		}
	}
	return out
}

// renum rewrites probe numbers (first argument of L) in source order.
func renum(x gen.Expr, k *int64) gen.Expr {
	switch x := x.(type) {
	case gen.Call:
		if n, ok := x.Fn.(gen.Name); ok && n.N == "L" {
			*k++
			args := []gen.Expr{gen.IntLit{V: *k}}
			for _, a := range x.Args[1:] {
				args = append(args, renum(a, k))
			}
			return gen.Call{Fn: x.Fn, Args: args}
		}
		f := renum(x.Fn, k)
		args := make([]gen.Expr, len(x.Args))
		for i, a := range x.Args {
			args[i] = renum(a, k)
		}
		return gen.Call{Fn: f, Args: args, Spread: x.Spread}
	case gen.Bin:
		l := renum(x.L, k)
		return gen.Bin{Op: x.Op, L: l, R: renum(x.R, k)}
	case gen.Logic:
		l := renum(x.L, k)
		return gen.Logic{Op: x.Op, L: l, R: renum(x.R, k)}
	case gen.Cond:
		cc := renum(x.C, k)
		a := renum(x.A, k)
		return gen.Cond{C: cc, A: a, B: renum(x.B, k)}
	case gen.Index:
		xx := renum(x.X, k)
		return gen.Index{X: xx, I: renum(x.I, k)}
	case gen.Sel:
		return gen.Sel{X: renum(x.X, k), N: x.N}
	case gen.Arr:
		e := make([]gen.Expr, len(x.E))
		for i, a := range x.E {
			e[i] = renum(a, k)
		}
		return gen.Arr{E: e}
	case gen.MapLit:
		v := make([]gen.Expr, len(x.V))
		for i, a := range x.V {
			v[i] = renum(a, k)
		}
		return gen.MapLit{K: x.K, V: v}
	}
	return x
}

func famOrder(c *fw.Ctx, emit emitFn) {
	pre := []gen.Stmt{
		def("id", fn([]string{"a"}, false, ret(gen.Name{N: "a"}))),
		def("add", fn([]string{"a", "b"}, false, ret(bin("+", gen.Name{N: "a"}, gen.Name{N: "b"})))),
	}
	depth := 2
	for _, t := range []typ{tInt, tArr, tBool} {
		for _, x := range exprs(t, depth) {
			var k int64
			xx := renum(x, &k)
			emit(append(append([]gen.Stmt{}, pre...), ret(xx)), k >= 2)
		}
	}
	// assignment forms: RHS first, then target operands left to right
	d, arr, m := gen.Name{N: "d"}, gen.Name{N: "arr"}, gen.Name{N: "m"}
	init := []gen.Stmt{pre[0], pre[1], def("d", gen.MapLit{}), def("arr", gen.Arr{E: ints(0, 3)}), def("m", gen.MapLit{K: []string{"a", "b"}, V: []gen.Expr{gen.MapLit{K: []string{"x"}, V: []gen.Expr{gen.IntLit{V: 1}}}, gen.IntLit{V: 2}}})}
	obs := ret(gen.Arr{E: []gen.Expr{d, arr, m}})
	for _, rhs := range exprs(tInt, 1) {
		targets := []gen.Expr{
			gen.Index{X: d, I: gen.L(0, gen.StrLit{V: "k"})},
			gen.Index{X: arr, I: gen.L(0, gen.IntLit{V: 1})},
			gen.Index{X: arr, I: gen.Bin{Op: "+", L: gen.L(0, gen.IntLit{V: 1}), R: gen.L(0, gen.IntLit{V: 1})}},
			gen.Index{X: gen.Sel{X: m, N: "a"}, I: gen.L(0, gen.StrLit{V: "y"})},
			gen.Sel{X: gen.Index{X: m, I: gen.L(0, gen.StrLit{V: "a"})}, N: "w"},
			gen.Index{X: gen.Index{X: m, I: gen.L(0, gen.StrLit{V: "a"})}, I: gen.L(0, gen.StrLit{V: "z"})},
		}
		for _, t := range targets {
			var k int64
			// number in *source* order: target first, then RHS (the documented evaluation order is RHS first)
			tt := renum(t, &k)
			rr := renum(rhs, &k)
			emit(append(append([]gen.Stmt{}, init...), gen.Assign{T: []gen.Expr{tt}, Op: "=", X: rr}, obs), true)
		}
		// compound assignment to operand-bearing targets: the operands of the target are evaluated once
		for _, t := range []gen.Expr{
			gen.Index{X: arr, I: gen.L(0, gen.IntLit{V: 1})},
			gen.Index{X: arr, I: gen.Bin{Op: "+", L: gen.L(0, gen.IntLit{V: 1}), R: gen.L(0, gen.IntLit{V: 1})}},
			gen.Index{X: m, I: gen.L(0, gen.StrLit{V: "b"})},
			gen.Sel{X: gen.Index{X: m, I: gen.L(0, gen.StrLit{V: "a"})}, N: "x"},
		} {
			for _, op := range []string{"+=", "*="} {
				var k int64
				tt := renum(t, &k)
				rr := renum(rhs, &k)
				emit(append(append([]gen.Stmt{}, init...), gen.Assign{T: []gen.Expr{tt}, Op: op, X: rr}, obs), true)
			}
		}
		// destructuring assignment with operand-bearing targets
		{
			var k int64
			t1 := renum(gen.Index{X: arr, I: gen.L(0, gen.IntLit{V: 0})}, &k)
			t2 := renum(gen.Index{X: d, I: gen.L(0, gen.StrLit{V: "q"})}, &k)
			rr := renum(gen.Arr{E: []gen.Expr{rhs, gen.L(0, gen.IntLit{V: 9})}}, &k)
			emit(append(append([]gen.Stmt{}, init...), gen.Assign{T: []gen.Expr{t1, t2}, Op: "=", X: rr}, obs), true)
		}
	}
	// tutorial example
	a := gen.Name{N: "a"}
	emit([]gen.Stmt{def("a", gen.IntLit{V: 1}),
		def("f", fn(nil, false, gen.Assign{T: []gen.Expr{a}, Op: "*=", X: gen.IntLit{V: 10}}, ret(a))),
		def("g", fn(nil, false, gen.IncDec{X: a, Op: "++"}, ret(a))),
		def("h", fn(nil, false, gen.Assign{T: []gen.Expr{a}, Op: "+=", X: gen.IntLit{V: 2}}, ret(a))),
		def("d", gen.MapLit{}),
		gen.Assign{T: []gen.Expr{gen.Index{X: d, I: call("f")}}, Op: "=", X: gen.Arr{E: []gen.Expr{call("g"), call("h")}}},
		ret(d)}, true)
	// call statement, throw and return operands; map literal element order
	for _, x := range exprs(tInt, 1) {
		var k int64
		xx := renum(gen.MapLit{K: []string{"a", "b"}, V: []gen.Expr{x, gen.L(0, gen.IntLit{V: 3})}}, &k)
		emit(append(append([]gen.Stmt{}, pre...), ret(xx)), true)
		k = 0
		emit(append(append([]gen.Stmt{}, pre...), gen.Throw{X: renum(x, &k)}), true)
		k = 0
		emit(append(append([]gen.Stmt{}, pre...), def("v", gen.IntLit{V: 100}), gen.Assign{T: []gen.Expr{gen.Name{N: "v"}}, Op: "+=", X: renum(x, &k)}, ret(gen.Name{N: "v"})), true)
	}
}

// ---- family: scope --------------------------------------------------------------

type scopeSt struct {
	declared []map[string]bool // stack of block scopes: names declared in each
	gdecl    bool
}

func (s *scopeSt) visible(n string) bool {
	for _, m := range s.declared {
		if m[n] {
			return true
		}
	}
	return false
}

func famScope(c *fw.Ctx, emit emitFn) {
	maxStmts := 4
	if c.Thorough() {
		maxStmts = 5
	}
	vars := []string{"a", "b"}
	var k int64
	// rec enumerates statement lists of exactly `budget` statements in total (nested ones count)
	var rec func(st *scopeSt, budget, depth int, inLoop bool, yield func([]gen.Stmt, int))
	rec = func(st *scopeSt, budget, depth int, inLoop bool, yield func([]gen.Stmt, int)) {
		yield(nil, budget)
		if budget == 0 {
			return
		}
		top := st.declared[len(st.declared)-1]
		try1 := func(s gen.Stmt, after func()) {
			if after != nil {
				after()
			}
			rec(st, budget-1, depth, inLoop, func(rest []gen.Stmt, left int) {
				yield(append([]gen.Stmt{s}, rest...), left)
			})
		}
		for _, v := range vars {
			if !top[v] {
				k++
				top[v] = true
				try1(def(v, gen.IntLit{V: k}), nil)
				delete(top, v)
				k--
			}
			if st.visible(v) {
				k++
				try1(set(v, gen.IntLit{V: k}), nil)
				k--
				try1(gen.ExprStmt{X: gen.L(0, gen.Name{N: v})}, nil)
				try1(set("g", fn(nil, false, ret(gen.Name{N: v}))), nil)
				try1(gen.Assign{T: []gen.Expr{gen.Name{N: v}}, Op: "+=", X: gen.IntLit{V: 10}}, nil)
			}
		}
		try1(gen.ExprStmt{X: gen.L(0, call("g"))}, nil)
		if depth < 2 {
			for inner := 1; inner <= budget-1; inner++ {
				for kind := 1; kind < 4; kind++ {
					st.declared = append(st.declared, map[string]bool{})
					if kind == 2 {
						st.declared[len(st.declared)-1]["i"] = true
					}
					rec(st, inner, depth+1, inLoop || kind == 2, func(body []gen.Stmt, left int) {
						if left != 0 || len(body) == 0 {
							return
						}
						var s gen.Stmt
						switch kind {
						case 1:
							s = gen.If{Cond: gen.BoolLit{V: true}, Then: body}
						case 2:
							s = forN("i", 2, body...)
						case 3:
							s = gen.If{Cond: bin("==", gen.Name{N: "zero"}, gen.IntLit{V: 0}), Then: body, HasElse: true, Else: []gen.Stmt{gen.ExprStmt{X: gen.L(0)}}}
						}
						saved := st.declared
						// copy: the continuation may push new scopes and must not overwrite the saved stack's storage
						st.declared = append([]map[string]bool{}, st.declared[:len(st.declared)-1]...)
						rec(st, budget-1-inner, depth, inLoop, func(rest []gen.Stmt, left2 int) {
							yield(append([]gen.Stmt{s}, rest...), left2)
						})
						st.declared = saved
					})
					st.declared = st.declared[:len(st.declared)-1]
				}
			}
		}
	}
	for total := 1; total <= maxStmts; total++ {
		st := &scopeSt{declared: []map[string]bool{{}}}
		k = 0
		rec(st, total, 0, false, func(body []gen.Stmt, left int) {
			if left != 0 {
				return
			}
			prog := []gen.Stmt{def("zero", gen.IntLit{V: 0}), gen.Var{N: "g"}, set("g", fn(nil, false, ret(gen.IntLit{V: -1})))}
			prog = append(prog, body...)
			prog = append(prog, ret(call("g")))
			var n int64
			emit(renumStmts(prog, &n), hasNested(body))
		})
	}
}

func hasNested(body []gen.Stmt) bool {
	for _, s := range body {
		switch s.(type) {
		case gen.Block, gen.If, gen.For:
			return true
		}
	}
	return false
}

func renumStmts(in []gen.Stmt, k *int64) []gen.Stmt {
	out := make([]gen.Stmt, len(in))
	for i, s := range in {
		switch s := s.(type) {
		case gen.ExprStmt:
			out[i] = gen.ExprStmt{X: renum(s.X, k)}
		case gen.Block:
			out[i] = gen.Block{Body: renumStmts(s.Body, k)}
		case gen.If:
			out[i] = gen.If{Init: s.Init, Cond: s.Cond, Then: renumStmts(s.Then, k), Else: renumStmts(s.Else, k), HasElse: s.HasElse}
		case gen.For:
			out[i] = gen.For{Init: s.Init, Cond: s.Cond, Post: s.Post, Body: renumStmts(s.Body, k)}
		case gen.ForIn:
			out[i] = gen.ForIn{K: s.K, V: s.V, X: s.X, Body: renumStmts(s.Body, k)}
		case gen.Return:
			if s.X != nil {
				out[i] = gen.Return{X: renum(s.X, k)}
			} else {
				out[i] = s
			}
		default:
			out[i] = s
		}
	}
	return out
}

// ---- family: closure ------------------------------------------------------------

func famClosure(c *fw.Ctx, emit emitFn) {
	x := gen.Name{N: "x"}
	inc := func(n string) gen.Stmt { return gen.IncDec{X: gen.Name{N: n}, Op: "++"} }
	arr := func(e ...gen.Expr) gen.Expr { return gen.Arr{E: e} }
	// counters shared by two closures, declared with each binding form
	for form := 0; form < 4; form++ {
		var decl gen.Stmt
		switch form {
		case 0:
			decl = def("x", gen.IntLit{V: 0})
		case 1:
			decl = gen.Var{N: "x", X: gen.IntLit{V: 0}}
		case 2:
			decl = gen.Var{N: "x"}
		case 3:
			decl = gen.Define{Names: []string{"x", "y"}, X: arr(gen.IntLit{V: 0}, gen.IntLit{V: 5})}
		}
		for nest := 0; nest < 3; nest++ {
			incF := fn(nil, false, gen.Assign{T: []gen.Expr{x}, Op: "=", X: bin("+", gen.Cond{C: bin("==", x, gen.Undef{}), A: gen.IntLit{V: 0}, B: x}, gen.IntLit{V: 1})}, ret(x))
			getF := fn(nil, false, ret(x))
			for i := 0; i < nest; i++ {
				incF = gen.Call{Fn: gen.Paren{X: fn(nil, false, ret(incF))}}
				getF = gen.Call{Fn: gen.Paren{X: fn(nil, false, ret(getF))}}
			}
			body := []gen.Stmt{decl, def("inc", incF), def("get", getF),
				def("r1", call("inc")), def("r2", call("get")), gen.Assign{T: []gen.Expr{x}, Op: "=", X: gen.IntLit{V: 40}}, def("r3", call("inc")), def("r4", call("get")),
				ret(arr(gen.Name{N: "r1"}, gen.Name{N: "r2"}, gen.Name{N: "r3"}, gen.Name{N: "r4"}, x))}
			emit(body, true)
			// the same inside a function (locals of a non-main frame) and with a parameter as the captured variable
			emit([]gen.Stmt{ret(gen.Call{Fn: gen.Paren{X: fn(nil, false, body...)}})}, true)
		}
	}
	// captured parameter, updated by the closure, observed by the function
	emit([]gen.Stmt{def("f", fn([]string{"p"}, false, def("g", fn(nil, false, inc("p"), ret(gen.Name{N: "p"}))), def("a", call("g")), def("b", call("g")), ret(arr(gen.Name{N: "a"}, gen.Name{N: "b"}, gen.Name{N: "p"})))), ret(arr(call("f", gen.IntLit{V: 1}), call("f", gen.IntLit{V: 10})))}, true)
	// factory: every call creates a fresh variable
	emit([]gen.Stmt{def("mk", fn(nil, false, def("n", gen.IntLit{V: 0}), ret(fn(nil, false, inc("n"), ret(gen.Name{N: "n"}))))), def("c1", call("mk")), def("c2", call("mk")),
		ret(arr(call("c1"), call("c1"), call("c2"), call("c1")))}, true)
	// loop variable of a three-clause for is one variable; j := i is fresh per iteration; var j likewise
	for variant := 0; variant < 6; variant++ {
		var loopBody []gen.Stmt
		fsAdd := func(e gen.Expr) gen.Stmt {
			return gen.Assign{T: []gen.Expr{gen.Name{N: "fs"}}, Op: "=", X: bin("+", gen.Name{N: "fs"}, arr(e))}
		}
		i := gen.Name{N: "i"}
		switch variant {
		case 0:
			loopBody = []gen.Stmt{fsAdd(fn(nil, false, ret(i)))}
		case 1:
			loopBody = []gen.Stmt{def("j", i), fsAdd(fn(nil, false, ret(gen.Name{N: "j"})))}
		case 2:
			loopBody = []gen.Stmt{def("i", i), fsAdd(fn(nil, false, ret(i)))}
		case 3:
			loopBody = []gen.Stmt{gen.Var{N: "j", X: bin("*", i, gen.IntLit{V: 2})}, fsAdd(fn(nil, false, inc("j"), ret(gen.Name{N: "j"})))}
		case 4:
			loopBody = []gen.Stmt{gen.Var{N: "j"}, fsAdd(fn(nil, false, ret(gen.Name{N: "j"}))), set("j", i)}
		case 5:
			loopBody = []gen.Stmt{def("j", i), fsAdd(fn(nil, false, ret(gen.Name{N: "j"}))), gen.Block{Body: []gen.Stmt{def("j", bin("+", gen.Name{N: "j"}, gen.IntLit{V: 100})), fsAdd(fn(nil, false, ret(gen.Name{N: "j"})))}}, inc("j")}
		}
		body := []gen.Stmt{def("fs", gen.Arr{}), forN("i", 3, loopBody...), def("out", gen.Arr{}),
			gen.ForIn{V: "g", X: gen.Name{N: "fs"}, Body: []gen.Stmt{set("out", bin("+", gen.Name{N: "out"}, arr(call("g"))))}},
			// call them a second time: closures that increment must see their own variable
			gen.ForIn{V: "g", X: gen.Name{N: "fs"}, Body: []gen.Stmt{set("out", bin("+", gen.Name{N: "out"}, arr(call("g"))))}},
			ret(gen.Name{N: "out"})}
		emit(body, true)
		emit([]gen.Stmt{ret(gen.Call{Fn: gen.Paren{X: fn(nil, false, body...)}})}, true)
	}
	// for-in: key and value are fresh in every iteration
	for variant := 0; variant < 3; variant++ {
		var cap gen.Expr
		switch variant {
		case 0:
			cap = fn(nil, false, ret(gen.Name{N: "v"}))
		case 1:
			cap = fn(nil, false, ret(arr(gen.Name{N: "k"}, gen.Name{N: "v"})))
		case 2:
			cap = fn(nil, false, inc("v"), ret(gen.Name{N: "v"}))
		}
		body := []gen.Stmt{def("fs", gen.Arr{}), gen.ForIn{K: "k", V: "v", X: arr(gen.IntLit{V: 10}, gen.IntLit{V: 20}, gen.IntLit{V: 30}), Body: []gen.Stmt{
			gen.Assign{T: []gen.Expr{gen.Name{N: "fs"}}, Op: "=", X: bin("+", gen.Name{N: "fs"}, arr(cap))}}},
			def("out", gen.Arr{}),
			gen.ForIn{V: "g", X: gen.Name{N: "fs"}, Body: []gen.Stmt{set("out", bin("+", gen.Name{N: "out"}, arr(call("g"), call("g"))))}},
			ret(gen.Name{N: "out"})}
		emit(body, true)
		emit([]gen.Stmt{ret(gen.Call{Fn: gen.Paren{X: fn(nil, false, body...)}})}, true)
	}
	// free of free: three levels, innermost updates the outermost
	emit([]gen.Stmt{def("x", gen.IntLit{V: 1}), def("f", fn(nil, false, ret(fn(nil, false, ret(fn(nil, false, inc("x"), ret(x))))))), def("a", gen.Call{Fn: gen.Call{Fn: call("f")}}), def("b", gen.Call{Fn: gen.Call{Fn: call("f")}}), ret(arr(gen.Name{N: "a"}, gen.Name{N: "b"}, x))}, true)
	// shadowing in an inner block after capture
	emit([]gen.Stmt{def("x", gen.IntLit{V: 1}), def("f", fn(nil, false, ret(x))), gen.Block{Body: []gen.Stmt{def("x", gen.IntLit{V: 2}), gen.ExprStmt{X: gen.L(1, call("f"))}, gen.ExprStmt{X: gen.L(2, x)}, set("x", gen.IntLit{V: 3})}}, ret(arr(call("f"), x))}, true)
	// a closure created before a later assignment sees the assignment
	emit([]gen.Stmt{gen.Var{N: "x"}, def("f", fn(nil, false, ret(x))), gen.ExprStmt{X: gen.L(1, call("f"))}, set("x", gen.IntLit{V: 5}), gen.ExprStmt{X: gen.L(2, call("f"))}, ret(call("f"))}, true)
	// recursion through a captured variable (documented `var f; f = func`)
	emit([]gen.Stmt{gen.Var{N: "fib"}, set("fib", fn([]string{"n"}, false, gen.If{Cond: bin("<", gen.Name{N: "n"}, gen.IntLit{V: 2}), Then: []gen.Stmt{ret(gen.Name{N: "n"})}}, ret(bin("+", call("fib", bin("-", gen.Name{N: "n"}, gen.IntLit{V: 1})), call("fib", bin("-", gen.Name{N: "n"}, gen.IntLit{V: 2})))))), ret(call("fib", gen.IntLit{V: 10}))}, true)
}

// ---- family: loop ---------------------------------------------------------------

func famLoop(c *fw.Ctx, emit emitFn) {
	maxBody := 2
	if c.Thorough() {
		maxBody = 3
	}
	arr := func(e ...gen.Expr) gen.Expr { return gen.Arr{E: e} }
	type hdr struct {
		name string
		mk   func(v string, body []gen.Stmt) []gen.Stmt
	}
	hdrs := []hdr{
		{"for3", func(v string, body []gen.Stmt) []gen.Stmt { return []gen.Stmt{forN(v, 3, body...)} }},
		{"forcond", func(v string, body []gen.Stmt) []gen.Stmt {
			return []gen.Stmt{def(v, gen.IntLit{V: -1}), gen.For{Cond: bin("<", gen.Name{N: v}, gen.IntLit{V: 2}), Body: append([]gen.Stmt{gen.IncDec{X: gen.Name{N: v}, Op: "++"}}, body...)}}
		}},
		{"forever", func(v string, body []gen.Stmt) []gen.Stmt {
			return []gen.Stmt{def(v, gen.IntLit{V: -1}), gen.For{Body: append([]gen.Stmt{gen.IncDec{X: gen.Name{N: v}, Op: "++"}, gen.If{Cond: bin(">", gen.Name{N: v}, gen.IntLit{V: 2}), Then: []gen.Stmt{gen.Break{}}}}, body...)}}
		}},
		{"forin", func(v string, body []gen.Stmt) []gen.Stmt {
			return []gen.Stmt{gen.ForIn{K: v + "k", V: v, X: arr(gen.IntLit{V: 0}, gen.IntLit{V: 1}, gen.IntLit{V: 2}), Body: body}}
		}},
		{"forin-v", func(v string, body []gen.Stmt) []gen.Stmt {
			return []gen.Stmt{gen.ForIn{V: v, X: arr(gen.IntLit{V: 0}, gen.IntLit{V: 1}, gen.IntLit{V: 2}), Body: body}}
		}},
	}
	items := func(v string, inner []gen.Stmt) []gen.Stmt {
		i := gen.Name{N: v}
		its := []gen.Stmt{
			gen.ExprStmt{X: gen.L(0, i)},
			gen.If{Cond: bin("==", i, gen.IntLit{V: 1}), Then: []gen.Stmt{gen.Break{}}},
			gen.If{Cond: bin("==", i, gen.IntLit{V: 1}), Then: []gen.Stmt{gen.Continue{}}},
			gen.If{Cond: bin("==", i, gen.IntLit{V: 0}), Then: []gen.Stmt{gen.Continue{}}, HasElse: true, Else: []gen.Stmt{gen.ExprStmt{X: gen.L(0, bin("*", i, gen.IntLit{V: 10}))}}},
			gen.Assign{T: []gen.Expr{gen.Name{N: "fs"}}, Op: "=", X: bin("+", gen.Name{N: "fs"}, arr(fn(nil, false, ret(i))))},
			gen.Block{Body: []gen.Stmt{def("t", bin("+", i, gen.IntLit{V: 5})), gen.Assign{T: []gen.Expr{gen.Name{N: "fs"}}, Op: "=", X: bin("+", gen.Name{N: "fs"}, arr(fn(nil, false, ret(gen.Name{N: "t"}))))}}},
			gen.Assign{T: []gen.Expr{gen.Name{N: "sum"}}, Op: "+=", X: i},
		}
		if inner != nil {
			its = append(its, inner...)
		}
		return its
	}
	var seqs func(its []gen.Stmt, n int, yield func([]gen.Stmt))
	seqs = func(its []gen.Stmt, n int, yield func([]gen.Stmt)) {
		if n == 0 {
			yield(nil)
			return
		}
		for _, it := range its {
			seqs(its, n-1, func(rest []gen.Stmt) { yield(append([]gen.Stmt{it}, rest...)) })
		}
	}
	finish := func(loop []gen.Stmt, nt bool) {
		body := []gen.Stmt{def("fs", gen.Arr{}), def("sum", gen.IntLit{V: 0})}
		body = append(body, loop...)
		body = append(body, def("out", gen.Arr{}), gen.ForIn{V: "g", X: gen.Name{N: "fs"}, Body: []gen.Stmt{set("out", bin("+", gen.Name{N: "out"}, arr(call("g"))))}},
			ret(arr(gen.Name{N: "sum"}, gen.Name{N: "out"})))
		var k int64
		emit(renumStmts(body, &k), nt)
	}
	for _, h := range hdrs {
		for n := 1; n <= maxBody; n++ {
			seqs(items("i", nil), n, func(b []gen.Stmt) { finish(h.mk("i", b), n >= 2) })
		}
	}
	// nesting 2: inner loop (each header) with one item, placed among one outer item
	for _, ho := range hdrs {
		for _, hi := range hdrs {
			seqs(items("j", nil), 1, func(ib []gen.Stmt) {
				inner := hi.mk("j", ib)
				for _, oi := range items("i", nil) {
					finish(ho.mk("i", append(append([]gen.Stmt{}, inner...), oi)), true)
					finish(ho.mk("i", append([]gen.Stmt{oi}, inner...)), true)
				}
			})
		}
	}
}

// ---- family: const ----------------------------------------------------------------

func famConst(c *fw.Ctx, emit emitFn) {
	io := gen.Name{N: "iota"}
	xs := []gen.Expr{io, bin("+", io, gen.IntLit{V: 1}), bin("*", io, gen.IntLit{V: 2}), gen.Arr{E: []gen.Expr{io}}, bin("+", gen.StrLit{V: "s"}, io), gen.IntLit{V: 7},
		bin("*", bin("+", io, gen.IntLit{V: 1}), bin("+", io, gen.IntLit{V: 1}))}
	namesets := [][]string{{"x"}, {"x", "y"}, {"x", "y", "z"}, {"_", "x", "y"}, {"x", "_", "z"}}
	obs := func(ns []string) gen.Stmt {
		var e []gen.Expr
		for _, n := range ns {
			if n != "_" {
				e = append(e, gen.Name{N: n})
			}
		}
		return ret(gen.Arr{E: e})
	}
	for _, ns := range namesets {
		for _, x0 := range xs {
			// implicit repetition
			specs := []gen.ConstSpec{{N: ns[0], X: x0}}
			for _, n := range ns[1:] {
				specs = append(specs, gen.ConstSpec{N: n})
			}
			grp := gen.Const{Specs: specs, Group: true}
			emit([]gen.Stmt{grp, obs(ns)}, len(ns) > 1)
			emit([]gen.Stmt{ret(gen.Call{Fn: gen.Paren{X: fn(nil, false, grp, obs(ns))}})}, true)
			emit([]gen.Stmt{def("iota", gen.StrLit{V: "foo"}), grp, obs(ns)}, true)
			// a new expression in the middle restarts the repetition
			if len(ns) == 3 {
				for _, x1 := range xs {
					specs := []gen.ConstSpec{{N: ns[0], X: x0}, {N: ns[1], X: x1}, {N: ns[2]}}
					emit([]gen.Stmt{gen.Const{Specs: specs, Group: true}, obs(ns)}, true)
				}
			}
		}
	}
	// constants are usable in closures, blocks and folded expressions; inner const shadows
	emit([]gen.Stmt{gen.Const{Specs: []gen.ConstSpec{{N: "k", X: gen.IntLit{V: 2}}}}, def("f", fn(nil, false, ret(bin("*", gen.Name{N: "k"}, gen.IntLit{V: 21})))),
		gen.Block{Body: []gen.Stmt{gen.Const{Specs: []gen.ConstSpec{{N: "k", X: gen.IntLit{V: 3}}}}, gen.ExprStmt{X: gen.L(1, bin("+", gen.Name{N: "k"}, gen.IntLit{V: 1}))}}}, ret(gen.Arr{E: []gen.Expr{call("f"), gen.Name{N: "k"}}})}, true)
	emit([]gen.Stmt{gen.Const{Specs: []gen.ConstSpec{{N: "k", X: gen.IntLit{V: 2}}}}, def("f", fn([]string{"k"}, false, ret(bin("+", gen.Name{N: "k"}, gen.IntLit{V: 1})))), ret(gen.Arr{E: []gen.Expr{call("f", gen.IntLit{V: 10}), gen.Name{N: "k"}}})}, true)
	emit([]gen.Stmt{gen.Const{Specs: []gen.ConstSpec{{N: "m", X: gen.MapLit{K: []string{"a"}, V: []gen.Expr{gen.IntLit{V: 1}}}}}}, gen.Assign{T: []gen.Expr{gen.Sel{X: gen.Name{N: "m"}, N: "a"}}, Op: "=", X: gen.IntLit{V: 5}}, ret(gen.Name{N: "m"})}, true)
}

// ---- family: destructuring --------------------------------------------------------

func famDestr(c *fw.Ctx, emit emitFn) {
	arr := func(e ...gen.Expr) gen.Expr { return gen.Arr{E: e} }
	rhss := []gen.Expr{arr(), arr(gen.IntLit{V: 1}), arr(gen.IntLit{V: 1}, gen.IntLit{V: 2}), arr(gen.IntLit{V: 1}, gen.IntLit{V: 2}, gen.IntLit{V: 3}), arr(gen.IntLit{V: 1}, gen.IntLit{V: 2}, gen.IntLit{V: 3}, gen.IntLit{V: 4}),
		gen.IntLit{V: 9}, gen.StrLit{V: "s"}, gen.Undef{}, gen.MapLit{K: []string{"a"}, V: []gen.Expr{gen.IntLit{V: 1}}},
		gen.Call{Fn: gen.Paren{X: fn(nil, false, ret(arr(gen.IntLit{V: 5}, gen.IntLit{V: 6})))}}}
	for nt := 1; nt <= 3; nt++ {
		ns := []string{"a", "b", "c"}[:nt]
		for _, r := range rhss {
			obs := ret(gen.Arr{E: nameExprs(ns)})
			if nt > 1 {
				emit([]gen.Stmt{gen.Define{Names: ns, X: r}, obs}, true)
				// one name already declared: re-used, the others defined
				// (whether a re-used name keeps its variable identity is not documented: not observed through a closure)
				emit([]gen.Stmt{def("a", gen.IntLit{V: 100}), gen.Define{Names: ns, X: r}, ret(gen.Arr{E: nameExprs(ns)})}, true)
				// ... and observed through a closure created before: `:=` declares, and the property text says "one fresh
				// variable per executed declaration", so the closure keeps seeing the variable it captured
				emit([]gen.Stmt{def("a", gen.IntLit{V: 100}), def("g", fn(nil, false, ret(gen.Name{N: "a"}))), gen.Define{Names: ns, X: r},
					ret(gen.Arr{E: append([]gen.Expr{call("g")}, nameExprs(ns)...)})}, true)
				emit([]gen.Stmt{ret(gen.Call{Fn: gen.Paren{X: fn([]string{"a"}, false, def("g", fn(nil, false, gen.Assign{T: []gen.Expr{gen.Name{N: "a"}}, Op: "+=", X: gen.IntLit{V: 1}}, ret(gen.Name{N: "a"}))), gen.Define{Names: ns, X: r},
					ret(gen.Arr{E: append([]gen.Expr{call("g"), call("g")}, nameExprs(ns)...)}))}, Args: []gen.Expr{gen.IntLit{V: 40}}})}, true)
				// inside a function and inside a block
				emit([]gen.Stmt{ret(gen.Call{Fn: gen.Paren{X: fn(nil, false, gen.Define{Names: ns, X: r}, obs)}})}, true)
				emit([]gen.Stmt{def("a", gen.IntLit{V: 100}), gen.Block{Body: []gen.Stmt{gen.ExprStmt{X: gen.L(0)}, gen.Define{Names: ns, X: r}, gen.ExprStmt{X: gen.L(1, gen.Arr{E: nameExprs(ns)})}}}, ret(gen.Name{N: "a"})}, true)
			}
			// assignment to declared variables
			decl := []gen.Stmt{}
			for _, n := range ns {
				decl = append(decl, gen.Var{N: n, X: gen.StrLit{V: "old"}})
			}
			if nt > 1 {
				emit(append(decl, gen.Assign{T: nameExprs(ns), Op: "=", X: r}, obs), true)
			}
			// selector / index targets
			if nt == 2 {
				emit([]gen.Stmt{def("m", gen.MapLit{}), gen.Var{N: "z"}, gen.Assign{T: []gen.Expr{gen.Sel{X: gen.Name{N: "m"}, N: "y"}, gen.Name{N: "z"}}, Op: "=", X: r}, ret(gen.Arr{E: []gen.Expr{gen.Name{N: "m"}, gen.Name{N: "z"}}})}, true)
				emit([]gen.Stmt{def("v", arr(gen.IntLit{V: 0}, gen.IntLit{V: 0})), gen.Assign{T: []gen.Expr{gen.Index{X: gen.Name{N: "v"}, I: gen.IntLit{V: 1}}, gen.Index{X: gen.Name{N: "v"}, I: gen.IntLit{V: 0}}}, Op: "=", X: r}, ret(gen.Name{N: "v"})}, true)
			}
		}
	}
	// more targets than elements, the source being a view of a longer array (spare capacity behind it): padding the
	// missing values must not write into the array behind the view
	for _, nt := range []int{2, 3, 4} {
		ns := []string{"x", "y", "z", "w"}[:nt]
		for _, hi := range []int64{0, 1, 2} {
			for _, def2 := range []bool{true, false} {
				body := []gen.Stmt{def("a", arr(gen.IntLit{V: 1}, gen.IntLit{V: 2}, gen.IntLit{V: 3})), def("b", gen.Slice{X: gen.Name{N: "a"}, Hi: gen.IntLit{V: hi}})}
				if def2 {
					body = append(body, gen.Define{Names: ns, X: gen.Name{N: "b"}})
				} else {
					for _, n := range ns {
						body = append(body, gen.Var{N: n})
					}
					body = append(body, gen.Assign{T: nameExprs(ns), Op: "=", X: gen.Name{N: "b"}})
				}
				body = append(body, ret(gen.Arr{E: append([]gen.Expr{gen.Name{N: "a"}, gen.Name{N: "b"}}, nameExprs(ns)...)}))
				emit(body, true)
			}
		}
	}
	// swap idiom and use of targets in the RHS
	emit([]gen.Stmt{def("a", gen.IntLit{V: 1}), def("b", gen.IntLit{V: 2}), gen.Assign{T: nameExprs([]string{"a", "b"}), Op: "=", X: arr(gen.Name{N: "b"}, gen.Name{N: "a"})}, ret(arr(gen.Name{N: "a"}, gen.Name{N: "b"}))}, true)
	emit([]gen.Stmt{def("f", fn(nil, false, ret(arr(gen.IntLit{V: 0}, gen.Undef{}, gen.StrLit{V: "e"})))), gen.Define{Names: []string{"x", "y", "z"}, X: call("f")}, ret(arr(gen.Name{N: "x"}, gen.Name{N: "y"}, gen.Name{N: "z"}))}, true)
}
