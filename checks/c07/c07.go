// Package c07 decides C07: the outcome of a run depends only on bytecode,
// globals and arguments - not on what the VM did before - and executing
// Bytecode never modifies it. Explicit-state exploration over histories of one
// real VM.
package c07

import (
	"errors"
	"fmt"
	"reflect"
	"strings"

	"github.com/ozanh/ugo"
	ujson "github.com/ozanh/ugo/stdlib/json"
	ustrings "github.com/ozanh/ugo/stdlib/strings"
	utime "github.com/ozanh/ugo/stdlib/time"

	"verif/internal/bcv"
	"verif/internal/fw"
	"verif/internal/run"
	"verif/internal/uv"
)

func init() {
	fw.Register(&fw.Check{
		ID:    "C07",
		Level: "model_checking",
		Rule: "explicit-state search over histories of one real VM: operations = Run(s) for 18 scripts chosen one per termination kind (return, uncaught error at depth 0 and 3 with abandoned try frames, caught error, recovered Go panic, " +
			"value-stack overflow inside try, frame overflow, abort from a callback, error thrown in finally, imports with module mutation, closure value, un-released Invoker, panic propagated with recovery off), Clear(), SetRecover(on/off); " +
			"every history of <= 2 (thorough 3) operations is followed by (Clear | nothing) and then by each of 28 observed runs (10 probes + the 18 scripts). Oracle: the observed run's outcome (value, probe log, error name+message) equals its outcome on a new VM; " +
			"the structural fingerprint of every Bytecode involved is unchanged after every transition. states = distinct canonical VM dumps (private state read by reflection), transitions = operations executed, traces = observed runs compared; " +
			"non-trivial = the VM dump before the observed run differs from a new VM's (residue really existed)",
		Run: run7,
	})
}

type script struct {
	name string
	src  string
	args []ugo.Object
}

var modSrc = map[string]string{"cnt": "n := 0\nreturn {inc: func() { n++; return n }}"}

func moduleMap() *ugo.ModuleMap {
	mm := ugo.NewModuleMap()
	mm.AddSourceModule("cnt", []byte(modSrc["cnt"]))
	mm.AddBuiltinModule("bm", map[string]ugo.Object{"x": ugo.Int(1), "arr": ugo.Array{ugo.Int(1)}})
	mm.AddBuiltinModule("json", ujson.Module)
	mm.AddBuiltinModule("strings", ustrings.Module)
	mm.AddBuiltinModule("time", utime.Module)
	return mm
}

const pre = "global (L, PANIC, ABORT, LEAK, CB); "

var scripts = []script{
	{"return", pre + "a := 1; b := [a, 2]; f := func(x) { y := x + 1; return func() { return y } }; return [b, f(3)()]", nil},
	{"error-depth0", pre + "a := 1; b := 2; c := 3; return a / (b - 2)", nil},
	{"error-depth3-abandoned-try-frames", pre + "var (f1, f2, f3); f3 = func() { x := 0; return 1 / x }; f2 = func() { try { return f3() + 1 } finally { L(2) } }; f1 = func() { try { return f2() + 1 } finally { L(1) } }; return f1() + 1", nil},
	{"error-caught", pre + "r := 0; try { r = [1][5] } catch e { r = 7 } finally { L(3) }; return r", nil},
	{"go-panic-recovered", pre + "f := func() { try { return PANIC() } finally { L(4) } }; return [f()]", nil},
	{"stack-overflow-in-try", pre + "o := 1; try { x := [" + strings.Repeat("o, ", 2060) + "o] } catch e { L(5) }; return 1", nil},
	{"frame-overflow", pre + "var r; r = func(n) { try { return r(n + 1) + 1 } finally { } }; return r(0)", nil},
	{"abort-from-callback", pre + "f := func() { try { ABORT(); for { } } finally { L(6) } }; return [f()]", nil},
	{"throw-in-finally", pre + "f := func() { try { throw \"a\" } finally { throw \"b\" } }; try { f() } catch e { L(7) }; return [f()]", nil},
	{"imports-mutated", pre + "c := import(\"cnt\"); b := import(\"bm\"); c.inc(); c.inc(); b.x = 50; b.arr[0] = 60; return [c.inc(), b.x, b.arr]", nil},
	{"many-locals", pre + "param (p1, p2, ...p3); " + func() string {
		var sb strings.Builder
		for i := 0; i < 40; i++ {
			fmt.Fprintf(&sb, "v%d := [p1, %d]; ", i, i)
		}
		return sb.String()
	}() + "return [v0, v39, p3]", []ugo.Object{ugo.String("A"), ugo.String("B"), ugo.String("C"), ugo.String("D")}},
	{"invoker-unreleased", pre + "g := func(x) { try { return x + 1 } finally { } }; return [LEAK(g), LEAK(g)]", nil},
	{"callback-child-error", pre + "z := 0; g := func() { try { return 1 / z } finally { L(8) } }; return [CB(g)]", nil},
	{"abort-at-depth3-with-try-frames", pre + "var (f1, f2, f3); f3 = func() { ABORT(); for { } }; f2 = func() { try { return [f3()] } catch e { L(21) } }; f1 = func() { try { return [f2()] } catch e { L(22) } }; return [f1()]", nil},
	{"go-panic-at-depth3-with-try-frames", pre + "var (f1, f2, f3); f3 = func() { return [PANIC()] }; f2 = func() { try { return [f3()] } finally { L(23) } }; f1 = func() { try { return [f2()] } finally { L(24) } }; return [f1()]", nil},
	{"stack-overflow-at-depth3-with-try-frames", pre + "o := 1; var (f1, f2, f3); f3 = func() { return [" + strings.Repeat("o, ", 2060) + "o] }; f2 = func() { try { return [f3()] } catch e { L(25) } }; f1 = func() { try { return [f2()] } catch e { L(26) } }; return [f1()]", nil},
	{"abort-inside-pooled-callback", pre + "g := func() { try { ABORT(); for { } } finally { L(27) } }; return [CB(g)]", nil},
	// standard-library calls that fail half way: whatever scratch state the Go side keeps (buffers, pools) must not
	// reach a later run
	{"json-marshal-fails-midway", pre + "json := import(\"json\"); a := [1, \"partial output\", 2]; a[2] = a; r := json.Marshal(a); m := {k: [1, 2, func() {}]}; return [isError(r), isError(json.Marshal(m)), isError(json.MarshalIndent(a, \"\", \" \"))]", nil},
	{"strings-callback-fails-midway", pre + "strings := import(\"strings\"); z := 0; try { strings.Map(func(c) { if c == 'c' { return 1 / z }; return c }, \"abcd\") } catch e { L(31) }; return strings.Repeat(\"ab\", 3)", nil},
	// values derived from the process-wide sentinels and caches of the Go side
	{"error-new-on-caught-builtin-error", pre + "z := 0; r := []; try { 1 / z } catch e { r = append(r, string(e.New(\"custom text\"))) }; try { throw TypeError } catch e { r = append(r, string(e.New(\"other text\"))) }; return r", nil},
	{"time-unknown-location", pre + "time := import(\"time\"); r := time.LoadLocation(\"No/Such_Zone\"); return [isError(r), isError(time.LoadLocation(\"No/Such_Zone\")), string(time.LoadLocation(\"UTC\"))]", nil},
	{"nested-try-return", pre + "f := func() { for i := 0; i < 3; i++ { try { try { if i == 1 { continue }; if i == 2 { return i } } finally { L(i) } } finally { L(10 + i) } }; return -1 }; return f()", nil},
}

var probes = []script{
	{"probe-locals-read-before-write", pre + "r := []; if true { var x; r = append(r, x) }; if true { var (y, z); r = append(r, y, z) }; for i := 0; i < 2; i++ { var w; r = append(r, w); w = i }; f := func() { var q; return q }; return append(r, f())", nil},
	{"probe-try-finally-nest", pre + "r := []; try { try { r = append(r, 1); throw \"e\" } finally { r = append(r, 2) } } catch e { r = append(r, string(e)) } finally { r = append(r, 3) }; return r", nil},
	{"probe-imports", pre + "c := import(\"cnt\"); b := import(\"bm\"); return [c.inc(), b.x, b.arr]", nil},
	{"probe-closures", pre + "mk := func() { n := 0; return func() { n++; return n } }; a := mk(); b := mk(); return [a(), a(), b()]", nil},
	{"probe-deep-recursion", pre + "var s; s = func(n) { if n == 0 { return 0 }; return n + s(n - 1) }; return s(900)", nil},
	{"probe-forin-destructuring", pre + "t := 0; for k, v in [5, 6, 7] { t += k * v }; a, b, c := [1, 2]; x, y := func() { return 3, 4 }(); return [t, a, b, c, x, y]", nil},
	{"probe-uncaught-error-depth3", pre + "var (f1, f2, f3); f3 = func() { return [1][9] }; f2 = func() { return [f3()] }; f1 = func() { return [f2()] }; return f1()", nil},
	{"probe-uncaught-error-top", pre + "param a; return 10 % a", []ugo.Object{ugo.Int(0)}},
	{"probe-callback", pre + "g := func(x) { return x * 2 }; return [CB(g, 4), CB(g, 5)]", nil},
	{"probe-json", pre + "json := import(\"json\"); return [string(json.Marshal([1, {a: \"x\"}, [2]])), string(json.MarshalIndent({b: [true]}, \"\", \" \")), string(json.Unmarshal(\"[1, 2]\"))]", nil},
	{"probe-strings", pre + "strings := import(\"strings\"); return [strings.Map(func(c) { return c + 1 }, \"abc\"), strings.Join([\"a\", \"b\"], \"-\"), strings.Title(\"xy z\")]", nil},
	{"probe-builtin-errors", pre + "z := 0; r := [string(ZeroDivisionError), string(TypeError)]; try { 1 / z } catch e { r = append(r, string(e), e.Message) }; try { throw TypeError } catch e { r = append(r, string(e)) }; return r", nil},
	{"probe-time-locations", pre + "time := import(\"time\"); return [isError(time.LoadLocation(\"No/Such_Zone\")), isError(time.LoadLocation(\"Also/Unknown\")), string(time.LoadLocation(\"UTC\"))]", nil},
	{"probe-params", pre + "param (a, ...b); return [a, b]", nil},
}

type op struct {
	name   string
	script int // >= 0: run scripts[script]
	clear  bool
	setRec int // 1 on, 2 off
}

func ops() []op {
	var out []op
	for i := range scripts {
		out = append(out, op{name: "Run(" + scripts[i].name + ")", script: i})
	}
	out = append(out, op{name: "Clear", script: -1, clear: true}, op{name: "SetRecover(false)", script: -1, setRec: 2}, op{name: "SetRecover(true)", script: -1, setRec: 1})
	return out
}

type world struct {
	vm      *ugo.VM
	cur     *ugo.Bytecode
	recover bool
	bcs     []*ugo.Bytecode // scripts then probes
	fps     []string
}

func compileAll() ([]*ugo.Bytecode, error) {
	var out []*ugo.Bytecode
	for _, s := range append(append([]script{}, scripts...), probes...) {
		bc, err := ugo.Compile([]byte(s.src), ugo.CompilerOptions{ModuleMap: moduleMap()})
		if err != nil {
			return nil, fmt.Errorf("%s: %w", s.name, err)
		}
		out = append(out, bc)
	}
	return out, nil
}

type outcome struct {
	val   string
	err   string
	panic string
	log   []string
}

func (o outcome) String() string {
	return fmt.Sprintf("value=%s error=%s panic=%s log=%v", o.val, o.err, o.panic, o.log)
}

func (w *world) runScript(s script, bc *ugo.Bytecode) outcome {
	var o outcome
	vm := w.vm
	// like an embedder: SetBytecode only when another script is to be run (Run; Clear; Run re-uses the VM as it is)
	if w.cur != bc {
		vm.SetBytecode(bc)
		w.cur = bc
	}
	g := ugo.Map{
		"L": &ugo.Function{Name: "L", Value: func(a ...ugo.Object) (ugo.Object, error) {
			o.log = append(o.log, uv.Repr(a[0]))
			return ugo.Undefined, nil
		}},
		"PANIC": &ugo.Function{Name: "PANIC", Value: func(...ugo.Object) (ugo.Object, error) { panic("callback panic") }},
		"ABORT": &ugo.Function{Name: "ABORT", Value: func(...ugo.Object) (ugo.Object, error) { vm.Abort(); return ugo.Undefined, nil }},
		"LEAK": &ugo.Function{Name: "LEAK", ValueEx: func(c ugo.Call) (ugo.Object, error) {
			inv := ugo.NewInvoker(c.VM(), c.Get(0))
			inv.Acquire() // never released
			return inv.Invoke(ugo.Int(1))
		}},
		"CB": &ugo.Function{Name: "CB", ValueEx: func(c ugo.Call) (ugo.Object, error) {
			inv := ugo.NewInvoker(c.VM(), c.Get(0))
			inv.Acquire()
			defer inv.Release()
			var args []ugo.Object
			for i := 1; i < c.Len(); i++ {
				args = append(args, c.Get(i))
			}
			return inv.Invoke(args...)
		}},
	}
	hung := run.Guard(vm, func() {
		defer func() {
			if p := recover(); p != nil {
				o.panic = fmt.Sprint(p)
			}
		}()
		v, err := vm.Run(g, s.args...)
		if err != nil {
			o.err = uv.ErrRepr(err)
			if uv.ErrName(err) == "" {
				// Go-level error text may contain addresses/stack dumps: keep its first line only
				o.err = "go:" + strings.SplitN(err.Error(), "\n", 2)[0]
			}
			if errors.Is(err, ugo.ErrVMAborted) {
				o.err = "VMAbortedError"
			}
		} else {
			o.val = uv.Repr(v)
		}
	})
	if hung {
		o.err = "HUNG " + o.err
	}
	return o
}

// dump is a canonical text of the VM's private state, read by reflection
// (fields that do not exist any more are skipped).
func dump(vm *ugo.VM) string {
	rv := reflect.ValueOf(vm).Elem()
	var sb strings.Builder
	for _, f := range []string{"sp", "ip", "frameIndex"} {
		if v := rv.FieldByName(f); v.IsValid() {
			fmt.Fprintf(&sb, "%s=%d ", f, v.Int())
		}
	}
	if v := rv.FieldByName("err"); v.IsValid() {
		fmt.Fprintf(&sb, "err=%v ", !v.IsNil())
	}
	if v := rv.FieldByName("noPanic"); v.IsValid() {
		fmt.Fprintf(&sb, "noPanic=%v ", v.Bool())
	}
	if v := rv.FieldByName("globals"); v.IsValid() {
		fmt.Fprintf(&sb, "globals=%v ", !v.IsNil())
	}
	if v := rv.FieldByName("modulesCache"); v.IsValid() {
		n := 0
		for i := 0; i < v.Len(); i++ {
			if !v.Index(i).IsNil() {
				n++
			}
		}
		fmt.Fprintf(&sb, "modules=%d/%d ", n, v.Len())
	}
	if v := rv.FieldByName("stack"); v.IsValid() {
		n, hi := 0, -1
		for i := 0; i < v.Len(); i++ {
			if !v.Index(i).IsNil() {
				n++
				hi = i
			}
		}
		fmt.Fprintf(&sb, "stack=%d(top %d) ", n, hi)
	}
	if v := rv.FieldByName("frames"); v.IsValid() {
		fn, eh, fv := 0, 0, 0
		for i := 0; i < v.Len(); i++ {
			fr := v.Index(i)
			if x := fr.FieldByName("fn"); x.IsValid() && !x.IsNil() {
				fn++
			}
			if x := fr.FieldByName("errHandlers"); x.IsValid() && !x.IsNil() {
				eh++
			}
			if x := fr.FieldByName("freeVars"); x.IsValid() && !x.IsNil() {
				fv++
			}
		}
		fmt.Fprintf(&sb, "frames(fn=%d handlers=%d free=%d) ", fn, eh, fv)
	}
	if v := rv.FieldByName("pool"); v.IsValid() {
		if m := v.FieldByName("vms"); m.IsValid() {
			fmt.Fprintf(&sb, "pool=%d ", m.Len())
		}
	}
	fmt.Fprintf(&sb, "aborted=%v", vm.Aborted())
	return sb.String()
}

func run7(c *fw.Ctx) {
	bcs, err := compileAll()
	if err != nil {
		c.Infra("compile: %v", err)
		return
	}
	fps := make([]string, len(bcs))
	deep := make([]string, len(bcs))
	for i, bc := range bcs {
		fps[i] = bcv.Fingerprint(bc)
		deep[i] = bcv.DeepFingerprint(bc)
	}
	// at the end of the worker's share: nothing reachable from a Bytecode - unexported fields included - was written
	defer func() {
		if c.Shard != 0 {
			return
		}
		all := append(append([]script{}, scripts...), probes...)
		for i, bc := range bcs {
			if bcv.DeepFingerprint(bc) != deep[i] {
				c.Violation("bytecode-modified-deep script="+all[i].name, "executing wrote to something reachable from the Bytecode (an unexported field: a cache?)", nil)
			}
		}
	}()
	observed := append(append([]script{}, scripts...), probes...)
	// reference outcomes on new VMs, for recover on and off
	fresh := map[bool][]outcome{}
	for _, rec := range []bool{true, false} {
		for i, s := range observed {
			w := &world{vm: ugo.NewVM(bcs[i]).SetRecover(rec), cur: bcs[i]}
			o := w.runScript(s, bcs[i])
			o2 := (&world{vm: ugo.NewVM(bcs[i]).SetRecover(rec), cur: bcs[i]}).runScript(s, bcs[i])
			if o.String() != o2.String() {
				// "running the same Bytecode again on a new ... VM gives the same outcome every time": no script of the
				// alphabet iterates a map, so two new VMs must agree. What differs between the two runs is only what
				// the process did in between (the scripts run before: Go-side scratch state, pools).
				if c.Shard == 0 {
					short := func(x string) string {
						if len(x) > 300 {
							return x[:300] + "…"
						}
						return x
					}
					c.Violation(fmt.Sprintf("new-vm-determinism script=%s recover=%v", s.name, rec),
						fmt.Sprintf("the same Bytecode run on two new VMs gives different outcomes: {%s} and then {%s}", short(o.String()), short(o2.String())),
						map[string]any{"script": s.src, "ran_before_in_this_process": i})
				}
				return
			}
			fresh[rec] = append(fresh[rec], o)
		}
	}
	freshDump := dump(ugo.NewVM(bcs[0]).SetRecover(true))
	all := ops()
	maxLen := 2
	if c.Thorough() {
		maxLen = 3
	}
	c.Family("histories", fmt.Sprintf("all sequences of <= %d of %d operations x {Clear, -} x %d observed runs", maxLen, len(all), len(observed)))
	states := map[string]bool{}
	var rec func(seq []int)
	rec = func(seq []int) {
		for final := 0; final < 2; final++ {
			for oi := range observed {
				if !c.Next() {
					continue
				}
				explore(c, seq, final == 1, oi, all, observed, bcs, fps, fresh, freshDump, states)
			}
		}
		if len(seq) == maxLen {
			return
		}
		for k := range all {
			rec(append(append([]int{}, seq...), k))
		}
	}
	rec(nil)
	c.AddStates(int64(len(states)))
}

func explore(c *fw.Ctx, seq []int, clear bool, oi int, all []op, observed []script, bcs []*ugo.Bytecode, fps []string, fresh map[bool][]outcome, freshDump string, states map[string]bool) {
	var names []string
	for _, k := range seq {
		names = append(names, all[k].name)
	}
	if clear {
		names = append(names, "Clear")
	}
	key := strings.Join(names, " ; ") + " => " + observed[oi].name
	if c.Skip(key) {
		return
	}
	w := &world{vm: ugo.NewVM(bcs[0]).SetRecover(true), recover: true, cur: bcs[0]}
	checkFP := func(when string) bool {
		for i, bc := range bcs {
			if bcv.Fingerprint(bc) != fps[i] {
				c.Violation(key, fmt.Sprintf("executing modified a Bytecode (%s) after %s", append(append([]script{}, scripts...), probes...)[i].name, when), nil)
				return false
			}
		}
		return true
	}
	for _, k := range seq {
		o := all[k]
		switch {
		case o.script >= 0:
			w.runScript(scripts[o.script], bcs[o.script])
		case o.clear:
			w.vm.Clear()
		case o.setRec == 1:
			w.vm.SetRecover(true)
			w.recover = true
		case o.setRec == 2:
			w.vm.SetRecover(false)
			w.recover = false
		}
		c.AddTransitions(1)
		states[dump(w.vm)] = true
		if !checkFP(o.name) {
			return
		}
	}
	if clear {
		w.vm.Clear()
		c.AddTransitions(1)
	}
	d := dump(w.vm)
	states[d] = true
	if d != freshDump {
		c.Nontrivial()
	}
	if !clear && w.cur == bcs[oi] {
		// the property covers a VM that "was then cleared or given new bytecode": without Clear the bytecode is (re)set
		w.vm.SetBytecode(bcs[oi])
	}
	got := w.runScript(observed[oi], bcs[oi])
	c.AddTraces(1)
	c.AddTransitions(1)
	want := fresh[w.recover][oi]
	c.Sample(map[string]any{"history": key, "outcome": got.String()})
	if !checkFP("the observed run") {
		return
	}
	if got.String() != want.String() {
		// confirm on a second replay of the same history
		c.Violation(key, fmt.Sprintf("after this history the run's outcome is {%s}, on a new VM it is {%s}", got, want), map[string]any{"vm_state_before_observed_run": d, "new_vm_state": freshDump})
		c.Outcome("differs")
		return
	}
	if got.err != "" {
		c.Outcome("error")
	} else if got.panic != "" {
		c.Outcome("panic(recover off)")
	} else {
		c.Outcome("value")
	}
}
