// Package c11 decides C11: bytecode in the previous (version 1) serialization
// format still runs the same program.
package c11

import (
	"bytes"
	"fmt"
	"strings"
	"time"

	"github.com/ozanh/ugo"
	"github.com/ozanh/ugo/encoder"

	"verif/checks/c02"
	"verif/checks/c03"
	"verif/internal/fw"
	"verif/internal/gen"
	"verif/internal/run"
	"verif/internal/v1"
)

func init() {
	fw.Register(&fw.Check{
		ID:    "C11",
		Level: "exploration",
		Rule: "corpus = every program of the C03 space (cores <= 2 nodes quick, <= 3 thorough: all try/catch/finally/loop nestings with every exit kind), every program of the C02 families, " +
			"and every program of a dedicated jump grammar (if/else, loops with break/continue, &&, ||, ?:, try, nesting <= 2, sequences <= 2) x inputs {0,1,2,\"x\"}. " +
			"Each compiled program is down-converted to version 1 by the harness (validated by an independent up-converter: up(down(p)) == p byte for byte), encoded under a version-1 header, " +
			"decoded by the implementation and run; value, probe log, error name+message and stack-trace lines must equal those of the original bytecode. " +
			"non-trivial = some function has a jump/try target that lies behind another widened instruction",
		Run: run11,
		Assumptions: []string{
			"version-1 files are the version-2 body encoding with 2-byte position operands under a version-1 header (encoder/export_test.go, encoder/v1.go)",
		},
	})
}

func nontrivial(bc *ugo.Bytecode) bool {
	check := func(f *ugo.CompiledFunction) bool {
		seen := -1
		nt := false
		ugo.IterateInstructions(f.Instructions, func(pos int, op ugo.Opcode, operands []int, _ int) bool {
			switch op {
			case ugo.OpJump, ugo.OpJumpFalsy, ugo.OpAndJump, ugo.OpOrJump, ugo.OpSetupTry:
				for _, t := range operands {
					if seen >= 0 && t > seen {
						nt = true
					}
				}
				if seen < 0 {
					seen = pos
				}
			}
			return true
		})
		return nt
	}
	if check(bc.Main) {
		return true
	}
	for _, c := range bc.Constants {
		if f, ok := c.(*ugo.CompiledFunction); ok && check(f) {
			return true
		}
	}
	return false
}

func one(c *fw.Ctx, src string, inputs [][]ugo.Object) {
	if c.Skip(src) {
		return
	}
	key := src
	src = gen.Multiline(src)
	bc, err, pan := run.Compile(src, run.Options{})
	if pan != "" || err != nil {
		c.Count("not_compilable", 1)
		return
	}
	data, ok, derr := v1.FromBytecode(bc)
	if derr != nil {
		c.Infra("v1 down-converter failed on %s: %v", src, derr)
		return
	}
	if !ok {
		c.Count("skipped_positions_beyond_16_bits", 1)
		return
	}
	if nontrivial(bc) {
		c.Nontrivial()
	}
	c.Sample(src)
	dec, err := func() (d *ugo.Bytecode, err error) {
		defer func() {
			if r := recover(); r != nil {
				err = fmt.Errorf("decoder panics: %v", r)
			}
		}()
		return encoder.DecodeBytecodeFrom(bytes.NewReader(data), nil)
	}()
	if err != nil {
		c.Violation(key, "decoding the version-1 encoding fails: "+err.Error(), map[string]any{"program": src})
		return
	}
	for _, in := range inputs {
		want := run.Bytecode(bc, run.Options{Args: in})
		got := run.Bytecode(dec, run.Options{Args: in})
		c.AddEval(1)
		if want.Hung {
			c.Infra("original program hangs: %s", src)
			return
		}
		if want.Key() != got.Key() || fmt.Sprint(want.Trace) != fmt.Sprint(got.Trace) {
			got2 := run.Bytecode(dec, run.Options{Args: in})
			if want2 := run.Bytecode(bc, run.Options{Args: in}); got2.Key() == want2.Key() && fmt.Sprint(want2.Trace) == fmt.Sprint(got2.Trace) { // a second pair of runs agrees
				c.Infra("unstable outcome for %s", src)
				return
			}
			c.Violation(key, fmt.Sprintf("version-1 bytecode behaves differently: original %s trace=%v, decoded from v1 %s trace=%v (input %v)", want.String(), want.Trace, got.String(), got.Trace, in),
				map[string]any{"program": src})
			return
		}
	}
}

// jump grammar -------------------------------------------------------------------

// JumpPrograms enumerates the dedicated jump grammar (programs take one parameter x).
func JumpPrograms(thorough bool, yield func(string)) {
	conds := []string{"x == 0", "x == 1", "x"}
	var k int
	lbl := func() string { k++; return fmt.Sprintf("L(%d)", k) }
	var stmts func(depth int, inLoop bool) []string
	stmts = func(depth int, inLoop bool) []string {
		out := []string{"L(0)", "return 7", "throw \"t\"", "r = 1/x"}
		if inLoop {
			out = append(out, "break", "continue")
		}
		for _, cd := range conds {
			out = append(out, "r = "+cd+" && L(1, 5)", "r = "+cd+" || L(2, 6)", "r = "+cd+" ? L(3, 1) : L(4, 2)", "r = ("+cd+" && x == 0) || L(5, x)")
		}
		if depth == 0 {
			return out
		}
		inner := stmts(depth-1, inLoop)
		innerLoop := stmts(depth-1, true)
		for _, cd := range conds {
			for _, a := range inner {
				out = append(out, "if "+cd+" { "+a+" }", "if "+cd+" { "+a+" } else { L(9) }", "if "+cd+" { L(8) } else if x == 2 { "+a+" } else { L(9) }")
			}
		}
		for _, a := range innerLoop {
			out = append(out, "for i := 0; i < 2; i++ { "+a+" }", "for i := 0; i < 2; i++ { "+a+"; L(6, i) }", "for _, v in [1, 2] { "+a+" }")
		}
		for _, a := range inner {
			out = append(out, "try { "+a+" } catch e { L(7, e) }", "try { "+a+" } finally { L(8) }", "try { L(6) } catch e { "+a+" } finally { L(8) }", "try { throw \"z\" } catch e { "+a+" }")
		}
		return out
	}
	_ = lbl
	depth := 1
	if thorough {
		depth = 2
	}
	list := stmts(depth, false)
	first := stmts(0, false)
	for _, a := range list {
		yield("param (x); global (L); var r; " + a + "; return [r, L(99)]")
	}
	for _, a := range first {
		for _, b := range list {
			yield("param (x); global (L); var r; " + a + "; " + b + "; return [r, L(99)]")
			yield("param (x); global (L); var r; " + b + "; " + a + "; return [r, L(99)]")
		}
	}
	// jumps inside nested functions stored as constants and in modules are covered by the C02/C03 corpora
	for _, a := range stmts(1, false) {
		yield("param (x); global (L); f := func(x) { var r; " + a + "; return [r, L(98)] }; return [f(x), f(1), L(99)]")
	}
}

var ins4 = [][]ugo.Object{{ugo.Int(0)}, {ugo.Int(1)}, {ugo.Int(2)}, {ugo.String("x")}}

// large runs one generated large program given as final source text; programs whose version-1 form does not fit, or
// that do not grow beyond 64 KiB, are counted and skipped.
func large(c *fw.Ctx, key, src string, inputs [][]ugo.Object) {
	rawProgram(c, key, src, inputs, true)
}

// rawProgram compares a program given as final source text with its version-1 form; mustGrow: only programs that cross
// 64 KiB when widened are of interest.
func rawProgram(c *fw.Ctx, key, src string, inputs [][]ugo.Object, mustGrow bool) {
	if c.Skip(key) {
		return
	}
	bc, err, pan := run.Compile(src, run.Options{})
	if pan != "" || err != nil {
		c.Count("not_compilable", 1)
		return
	}
	big := len(bc.Main.Instructions) > 65536
	for _, k := range bc.Constants {
		if f, ok := k.(*ugo.CompiledFunction); ok && len(f.Instructions) > 65536 {
			big = true
		}
	}
	data, ok, derr := v1.FromBytecode(bc)
	if derr != nil {
		c.Infra("v1 down-converter failed on %s: %v", key, derr)
		return
	}
	if !ok {
		c.Count("skipped_positions_beyond_16_bits", 1)
		return
	}
	if mustGrow {
		if !big {
			c.Count("growth_programs_below_64KiB", 1)
			return
		}
		c.Count("growth_programs_crossing_64KiB", 1)
	}
	c.Nontrivial()
	c.Sample(key)
	dec, err := func() (d *ugo.Bytecode, err error) {
		defer func() {
			if r := recover(); r != nil {
				err = fmt.Errorf("decoder panics: %v", r)
			}
		}()
		return encoder.DecodeBytecodeFrom(bytes.NewReader(data), nil)
	}()
	if err != nil {
		c.Violation(key, "decoding the version-1 encoding fails: "+err.Error(), nil)
		return
	}
	for _, in := range inputs {
		want := run.Bytecode(bc, run.Options{Args: in})
		got := run.Bytecode(dec, run.Options{Args: in})
		c.AddEval(1)
		if want.Key() != got.Key() || fmt.Sprint(want.Trace) != fmt.Sprint(got.Trace) {
			c.Violation(key, fmt.Sprintf("version-1 bytecode behaves differently: original %s trace=%v, decoded from v1 %s trace=%v (input %v)", trunc(want.String()), want.Trace, trunc(got.String()), got.Trace, in), nil)
			return
		}
	}
}

func trunc(s string) string {
	if len(s) > 300 {
		return s[:300] + "..."
	}
	return s
}

func run11(c *fw.Ctx) {
	// a mis-relocated jump typically makes the decoded program loop; the original terminates in
	// microseconds, so 2 s (re-checked once before reporting) is a safe "does not terminate" verdict
	run.Timeout = 2 * time.Second
	noIn := [][]ugo.Object{nil}
	maxCore := 2
	if c.Thorough() {
		maxCore = 3
	}
	c.Family("corpus:C03", fmt.Sprintf("cores <= %d nodes x 12 contexts x 6 prefixes", maxCore))
	c03.Corpus(maxCore, func(src string) {
		if c.Next() {
			one(c, src, noIn)
		}
	})
	c.Family("corpus:C02", "all families of C02")
	c02.Corpus(c.Thorough(), func(src string) {
		if strings.Contains(src, "5000") {
			return // deep recursion only costs time here
		}
		if c.Next() {
			one(c, src, noIn)
		}
	})
	// functions that fit the 16-bit positions of version 1 but grow beyond 64 KiB when their operands are widened:
	// relocated targets above 65535
	c.Family("growth", "main / a nested function of N if statements (N = 2000..4200 step 100) followed by try/catch/finally, a loop, && and || and a failing statement: every N whose version-1 form fits 16-bit positions, x inputs {0,1,2,\"x\"}")
	for n := 2000; n <= 4200; n += 100 {
		for _, nested := range []bool{false, true} {
			if !c.Next() {
				continue
			}
			var sb strings.Builder
			body := func() {
				sb.WriteString("var r; r = 0\n")
				for i := 0; i < n; i++ {
					sb.WriteString("if x == 1 { r += 1 }\n")
				}
				sb.WriteString("try { if r > 0 { throw \"t\" }; L(5) } catch e { L(1) } finally { L(2) }\nfor i := 0; i < 3; i++ { if i == 1 { continue }; r += i }\n")
				sb.WriteString("q := [r, x == 2 && L(3, 3), x == 2 || L(4, 4), x == 0 ? L(6, 6) : L(7, 7)]\nL(8, q)\nz := [1][r]\nreturn q\n")
			}
			if nested {
				sb.WriteString("param (x); global (L)\nf := func(x) {\n")
				body()
				sb.WriteString("}\nreturn [f(x), L(99)]\n")
			} else {
				sb.WriteString("param (x); global (L)\n")
				body()
			}
			large(c, fmt.Sprintf("growth N=%d nested=%v", n, nested), sb.String(), ins4)
		}
	}
	// a failing callee whose call is directly followed by a jump instruction, in constructs that span several lines:
	// the caller's frame reports the position of the instruction after the call, i.e. of the jump
	c.Family("jump-adjacent-calls", "calls of a failing function as condition of if / for / ?: / && / || written over several lines, in main, in a function and inside try")
	bad := "bad := func(v) {\n  return 1 / (v - v)\n}\n"
	shapes := []string{
		"if bad(x) {\n  L(1)\n}\n",
		"if x == 9 {\n  L(1)\n} else if bad(x) {\n  L(2)\n}\n",
		"for bad(x) {\n  L(1)\n  break\n}\n",
		"for i := 0; bad(i); i++ {\n  L(1)\n}\n",
		"r := x == 9 ?\n  1 :\n  bad(x)\n",
		"r := x != 9 ?\n  bad(x) :\n  2\n",
		"r := bad(x) ?\n  1 :\n  2\n",
		"r := (x != 9 &&\n  bad(x))\n",
		"r := (x == 9 ||\n  bad(x) ||\n  L(3))\n",
		"r := [\n  1,\n  bad(x) ? 1 : 2,\n]\n",
	}
	for _, sh := range shapes {
		for place := 0; place < 3; place++ {
			if !c.Next() {
				continue
			}
			var src string
			switch place {
			case 0:
				src = "param (x); global (L)\n" + bad + sh + "return 7\n"
			case 1:
				src = "param (x); global (L)\n" + bad + "f := func(x) {\n" + sh + "return 7\n}\nreturn f(x)\n"
			default:
				src = "param (x); global (L)\n" + bad + "try {\n" + sh + "} finally {\n  L(9)\n}\nreturn 7\n"
			}
			rawProgram(c, fmt.Sprintf("jump-adjacent shape=%q place=%d", sh, place), src, ins4, false)
		}
	}
	// functions whose bodies are byte-identical (same instructions, same constant indexes) at different source lines:
	// each keeps its own positions
	c.Family("twin-functions", "2-3 functions with identical bodies containing a jump or a try, defined at different lines; the error is raised in the first, the second or the third")
	twinBodies := []string{
		"  if v == 99 {\n    return 0\n  }\n  return 1 / (v - v)\n",
		"  try {\n    return [1][v + 5]\n  } finally {\n    L(7)\n  }\n",
		"  for i := 0; i < 2; i++ {\n    L(i)\n  }\n  return v()\n",
		"  return v == 99 ? 0 : 1 % (v - v)\n",
	}
	for bi, body := range twinBodies {
		for n := 2; n <= 3; n++ {
			for which := 1; which <= n; which++ {
				if !c.Next() {
					continue
				}
				src := "param (x); global (L)\n"
				for i := 1; i <= n; i++ {
					src += fmt.Sprintf("f%d := func(v) {\n%s}\n%s", i, body, strings.Repeat("\n", i))
				}
				src += fmt.Sprintf("return f%d(x)\n", which)
				rawProgram(c, fmt.Sprintf("twin body=%d n=%d failing=%d", bi, n, which), src, ins4, false)
			}
		}
	}
	c.Family("jump-grammar", "if/else chains, loops, logical operators, ?:, try - nesting <= 1 (thorough 2), sequences <= 2, x inputs {0,1,2,\"x\"}")
	ins := ins4
	JumpPrograms(c.Thorough(), func(src string) {
		if c.Next() {
			one(c, src, ins)
		}
	})
}
