package c05

import (
	"bytes"
	"fmt"
	"strings"

	"github.com/ozanh/ugo"

	"verif/internal/fw"
)

// Family E8: the optimizer reaches its fixpoint. OptimizerLimit is a budget of rewrites, a script may be compiled
// with any budget ("optimizer on, off or at any budget"), so compilation terminates for every budget only if a pass
// that rewrites nothing ends the optimizer: every counted rewrite has to shrink the tree. A rewrite that is counted but
// thrown away is repeated until the budget is gone - with a large budget the compiler does not return. The oracle is
// deterministic: the number of passes reported by the optimizer's own trace, at a budget of 3000, is at most
// 4 x (bytes of source) + 10 (each pass but the last of an invocation removes a node; nodes and invocations <= bytes).
var e8Consts = []string{"(1+2)", "1+2", "-1", "(-1)", `"a"+"b"`, "!true", "(1 ? 2 : 3)", `len("ab")`, "(1+2)+x", "[1+2][0]"}

var e8Places = []string{
	"C(x)", "C(1)", "C()", "x(C)", "x(C, C)", "x(...C)", "x[C]", "C[0]", "C[x]", "C.k", "x.k[C]", "x[C:C]", "C[0:1]", "{k: C}", "[C, x]", "-C", "!C",
	"x + C", "C + x", "C + C", "x ? C : C", "C ? x : x", "x && C", "C || x", "y := C", "y = C", "x[C] = 1", "x.k = C", "x += C", "return C", "throw C",
	"if C { y = 1 }", "if x { y = C } else { y = C }", "for i := C; i < C; i += C { y = i }", "for k, v in C { y = v }", "for C { break }",
	"y = func() { return C }", "y = func(a) { return a(C) }(x)", "import(C)", "try { y = C } catch e { y = C } finally { y = C }",
	"var z = C", "const z = C", "const (z = C; w)", "var (z = C, w = C)", "z, w := [C, C]", "C", "(C)(C)(C)", "x(C)(C)", "C.k(C)", "func() { C(x) }()",
}

func runE8(c *fw.Ctx) {
	c.Family("E8:optimizer-fixpoint", fmt.Sprintf("%d foldable expressions in %d syntactic positions, optimizer budget 3000, passes counted from the optimizer trace", len(e8Consts), len(e8Places)))
	const budget = 3000
	for _, pl := range e8Places {
		for _, k := range e8Consts {
			if !c.Next() {
				continue
			}
			src := "x := 0; y := 0; " + strings.ReplaceAll(pl, "C", k)
			key := "fixpoint:" + src
			if c.Skip(key) {
				continue
			}
			c.Mark(key)
			c.AddEval(1)
			var buf bytes.Buffer
			var pan any
			func() {
				defer func() { pan = recover() }()
				_, _ = ugo.Compile([]byte(src), ugo.CompilerOptions{OptimizerLimit: budget, Trace: &buf, TraceOptimizer: true, ModuleMap: modmap()})
			}()
			if pan != nil {
				c.Violation(key, fmt.Sprintf("compiling panics: %v", pan), map[string]any{"input": src})
				continue
			}
			passes := strings.Count(buf.String(), ". pass>")
			bound := 4*len(src) + 10
			if passes > 1 {
				c.Nontrivial()
			}
			c.Sample(map[string]any{"input": src, "optimizer_passes": passes, "bound": bound})
			if passes > bound {
				c.Violation(key, fmt.Sprintf("the optimizer does not reach a fixpoint: %d passes over a script of %d bytes at a budget of %d rewrites (bound %d); with a large budget the compiler does not return", passes, len(src), budget, bound),
					map[string]any{"input": src, "passes": passes, "budget": budget})
				c.Outcome("no-fixpoint")
				continue
			}
			c.Outcome(fmt.Sprintf("passes<=%d", (passes+4)/5*5))
		}
	}
}
