// Package c05 decides C05: Compile is total - bytecode or an error for any
// input and any option combination, never a panic, always terminating, and
// well-formed bytecode on success.
package c05

import (
	"context"
	"errors"
	"fmt"
	"io"
	"strings"
	"time"

	"github.com/ozanh/ugo"

	"verif/checks/c02"
	"verif/checks/c03"
	"verif/internal/bcv"
	"verif/internal/fw"
)

func init() {
	fw.Register(&fw.Check{
		ID:    "C05",
		Level: "exploration",
		Rule: "E1 = every string of <= 3 lexemes over a 46-lexeme alphabet and of <= 4 over a 20-lexeme sub-alphabet (thorough: 4 / 5); E2 = every byte string of length <= 2 (thorough 3) over all 256 bytes; " +
			"E3 = the valid corpora of C02/C03 x every combination of {NoOptimize, OptimizerLimit 1/2/default, trace on, module map, Compile / Eval / imported as source module}; " +
			"E4 = programs at limit-1, limit, limit+1 of every operand-width capacity (locals, params, call arguments, array/map elements, constants, free variables, selector chain, nesting depths, modules); " +
			"E5 = every single-lexeme deletion, duplication and replacement by every alphabet lexeme of 40 valid seed programs; E6 = every ordered pair of a 60-fragment alphabet through one Eval session (re-used symbol table, also after failing fragments). " +
			"Oracle: no panic, returns within 10 s, on success the bytecode passes the structural verifier (operands, jump targets, indexes in range, NumLocals <= 256), beyond a capacity limit the result is an error. " +
			"non-trivial = the input gets past the parser (it compiles or fails with a compiler/optimizer error)",
		Run:         run,
		MarkCases:   true,
		CaseTimeout: 10 * time.Second,
		MemLimitKB:  4 * 1024 * 1024,
		Assumptions: []string{
			"a fatal runtime error (e.g. stack exhaustion) of the worker is attributed to the marked input and counts as a crash",
		},
	})
}

type cfg struct {
	name string
	opt  func() ugo.CompilerOptions
	mode int // 0 Compile, 1 Eval, 2 as imported module
}

func modmap() *ugo.ModuleMap {
	mm := ugo.NewModuleMap()
	mm.AddSourceModule("m1", []byte("x := 1 + 2\nreturn {x: x, f: func() { return x }}"))
	mm.AddBuiltinModule("bm", map[string]ugo.Object{"a": ugo.Int(1)})
	return mm
}

func basicConfigs() []cfg {
	return []cfg{
		{"default", func() ugo.CompilerOptions { return ugo.CompilerOptions{} }, 0},
		{"noopt", func() ugo.CompilerOptions { return ugo.CompilerOptions{NoOptimize: true} }, 0},
	}
}

func allConfigs() []cfg {
	var out []cfg
	for _, noopt := range []bool{false, true} {
		for _, lim := range []int{0, 1, 2} {
			if noopt && lim != 0 {
				continue
			}
			for _, trace := range []bool{false, true} {
				for _, mods := range []bool{false, true} {
					for mode := 0; mode < 3; mode++ {
						noopt, lim, trace, mods, mode := noopt, lim, trace, mods, mode
						out = append(out, cfg{fmt.Sprintf("noopt=%v limit=%d trace=%v modules=%v mode=%d", noopt, lim, trace, mods, mode), func() ugo.CompilerOptions {
							o := ugo.CompilerOptions{NoOptimize: noopt, OptimizerLimit: lim}
							if trace {
								o.Trace = io.Discard
								o.TraceParser, o.TraceCompiler, o.TraceOptimizer = true, true, true
							}
							if mods || mode == 2 {
								o.ModuleMap = modmap()
							}
							return o
						}, mode})
					}
				}
			}
		}
	}
	return out
}

type outcome struct {
	bc      *ugo.Bytecode
	err     error
	panic   any
	parsed  bool
	problem string
}

func compile(src string, cf cfg) (o outcome) {
	defer func() {
		if r := recover(); r != nil {
			o.panic = r
		}
	}()
	opts := cf.opt()
	switch cf.mode {
	case 0:
		o.bc, o.err = ugo.Compile([]byte(src), opts)
	case 1:
		ev := ugo.NewEval(opts, nil)
		_, o.bc, o.err = ev.Run(context.Background(), []byte("return 0"))
		if o.err == nil {
			// compile only: a fragment that would run forever is not C05's business, so it is compiled through
			// the session's symbol table and constants but not executed
			o.bc, o.err = ugo.Compile([]byte(src), ev.Opts)
		}
	case 2:
		opts.ModuleMap.AddSourceModule("under_test", []byte(src))
		o.bc, o.err = ugo.Compile([]byte(`m := import("under_test"); return m`), opts)
	}
	if o.err == nil && o.bc != nil {
		o.problem = bcv.Verify(o.bc)
		o.parsed = true
	} else if o.err != nil {
		var ce *ugo.CompilerError
		var oe *ugo.OptimizerError
		if errors.As(o.err, &ce) || errors.As(o.err, &oe) || errors.Is(o.err, ugo.ErrSymbolLimit) {
			o.parsed = true
		}
	} else {
		o.problem = "neither bytecode nor error"
	}
	return
}

type env struct {
	c *fw.Ctx
}

func short(s string) string {
	if len(s) > 300 {
		return fmt.Sprintf("%s…(%d bytes)…%s", s[:140], len(s), s[len(s)-100:])
	}
	return s
}

// try compiles src under every given config; key identifies the input.
func (e *env) try(key, src string, cfgs []cfg, wantErr bool) {
	c := e.c
	nt := false
	for _, cf := range cfgs {
		k := key + "|" + cf.name
		if c.Skip(k) {
			continue
		}
		c.Mark(k)
		c.AddEval(1)
		o := compile(src, cf)
		switch {
		case o.panic != nil:
			c.Violation(k, fmt.Sprintf("compiling panics (%s): %v", cf.name, o.panic), map[string]any{"input": short(src)})
		case o.problem != "":
			c.Violation(k, fmt.Sprintf("compiled bytecode is not well formed (%s): %s", cf.name, o.problem), map[string]any{"input": short(src)})
		case wantErr && o.err == nil:
			c.Violation(k, fmt.Sprintf("a script beyond a capacity limit of the format compiles without error (%s)", cf.name), map[string]any{"input": short(src)})
		}
		if o.parsed {
			nt = true
		}
	}
	if nt {
		c.Nontrivial()
		c.Sample(map[string]any{"input": short(src), "configurations": len(cfgs), "must_be_refused": wantErr})
	}
}

var lexemes = []string{"a", "b", "1", "0", "2u", "1.5", "'c'", `"s"`, "true", "undefined", "(", ")", "[", "]", "{", "}", ",", ";", ":", ".", "...", "=", ":=", "+", "-", "%", "<<", "==", "&&", "?", "++",
	"func", "return", "if", "else", "for", "in", "break", "var", "const", "param", "global", "try", "catch", "finally", "throw", "import", "\n"}

var sublex = []string{"a", "1", "(", ")", "{", "}", ",", ";", "=", ":=", "%", "<<", "func", "for", "in", "if", "try", "catch", "param", "\n"}

func run(c *fw.Ctx) {
	e := &env{c: c}
	basic := basicConfigs()
	// E1
	n1, n2 := 3, 4
	if c.Thorough() {
		n1, n2 = 4, 5
	}
	c.Family("E1:lexemes", fmt.Sprintf("all strings of <= %d lexemes over %d lexemes", n1, len(lexemes)))
	enumLex(c, e, lexemes, n1, basic)
	c.Family("E1:sublexemes", fmt.Sprintf("all strings of <= %d lexemes over %d lexemes", n2, len(sublex)))
	enumLex(c, e, sublex, n2, basic)
	// E2
	m := 2
	if c.Thorough() {
		m = 3
	}
	c.Family("E2:bytes", fmt.Sprintf("all byte strings of length <= %d", m))
	buf := make([]byte, 0, m)
	var rec func(n int)
	rec = func(n int) {
		if c.Next() {
			e.try(fmt.Sprintf("bytes:%x", buf), string(buf), basic[:1], false)
		}
		if n == m {
			return
		}
		for v := 0; v < 256; v++ {
			buf = append(buf, byte(v))
			rec(n + 1)
			buf = buf[:len(buf)-1]
		}
	}
	rec(0)
	// E2b: many scanner errors inside ONE token (the error list has a cap; the first token is scanned by the parser's
	// constructor, later ones inside ParseFile)
	c.Family("E2b:bad-runs", "token opener {\", `, ', //, /*, none} x run of 1..13, 20, 100 bytes of {NUL, 0xff, 0x80, BOM} x closed or not x first token or after `a := `; and 1..40 bad bytes each on its own line inside a raw string, a block comment or a run of line comments")
	for _, open := range []struct{ o, cl string }{{"\"", "\""}, {"`", "`"}, {"'", "'"}, {"//", "\n"}, {"/*", "*/"}, {"", ""}} {
		for _, bad := range []string{"\x00", "\xff", "\x80", "\xef\xbb\xbf"} {
			for _, k := range []int{1, 2, 3, 4, 5, 6, 7, 8, 9, 10, 11, 12, 13, 20, 100} {
				for _, closed := range []bool{true, false} {
					for _, pre := range []string{"", "a := ", "\n\n"} {
						if !c.Next() {
							continue
						}
						src := pre + open.o + strings.Repeat(bad, k)
						if closed {
							src += open.cl
						}
						e.try(fmt.Sprintf("badrun:%q", src), src, basic, false)
					}
				}
			}
		}
	}
	// ... and the same with every bad byte on a line of its own (error lists that keep one entry per line)
	for _, open := range []struct{ o, cl, unitPre string }{{"`", "`", ""}, {"/*", "*/", ""}, {"", "", "//"}, {"", "", "// c"}} {
		for _, bad := range []string{"\x00", "\xff", "\x80"} {
			for _, k := range []int{1, 2, 9, 10, 11, 12, 13, 14, 20, 40} {
				for _, pre := range []string{"", "a := 1\n", "\n"} {
					for _, tail := range []string{"", "a := 1\n"} {
						if !c.Next() {
							continue
						}
						src := pre + open.o + strings.Repeat(open.unitPre+bad+"\n", k) + open.cl + tail
						e.try(fmt.Sprintf("badlines:%q", src), src, basic, false)
					}
				}
			}
		}
	}
	// E3
	all := allConfigs()
	c.Family("E3:corpus-x-options", fmt.Sprintf("C02 and C03 (cores <= 2) corpora x %d option combinations", len(all)))
	i := 0
	stride := 7
	if c.Thorough() {
		stride = 1
	}
	corpus := func(src string) {
		i++
		if i%stride != 0 {
			return
		}
		if c.Next() {
			e.try("corpus:"+src, src, all, false)
		}
	}
	c02.Corpus(false, func(s string) {
		if !strings.Contains(s, "5000") {
			corpus(s)
		}
	})
	c03.Corpus(2, corpus)
	// E4
	c.Family("E4:capacity", "limit-1, limit, limit+1 of every operand width")
	for _, cp := range capacityPrograms(c.Thorough()) {
		if c.Next() {
			e.try("capacity:"+cp.name, cp.src, basic, cp.wantErr)
		}
	}
	// E5
	c.Family("E5:near-valid", fmt.Sprintf("%d seeds: every lexeme deleted, duplicated, replaced by each of %d lexemes", len(seeds), len(lexemes)))
	for si, seed := range seeds {
		toks := strings.Split(seed, " ")
		for p := range toks {
			mut := func(kind string, ts []string) {
				if c.Next() {
					e.try(fmt.Sprintf("seed%d:%s@%d:%s", si, kind, p, strings.Join(ts, " ")), strings.Join(ts, " "), basic, false)
				}
			}
			del := append(append([]string{}, toks[:p]...), toks[p+1:]...)
			mut("del", del)
			dup := append(append(append([]string{}, toks[:p+1]...), toks[p]), toks[p+1:]...)
			mut("dup", dup)
			for _, l := range lexemes {
				rep := append([]string{}, toks...)
				rep[p] = l
				mut("rep", rep)
			}
		}
	}
	runE7(c, e, basic)
	runE8(c)
	// E6
	c.Family("E6:eval-fragments", fmt.Sprintf("all ordered pairs of %d fragments through one Eval session", len(fragments)))
	for _, f1 := range fragments {
		for _, f2 := range fragments {
			if !c.Next() {
				continue
			}
			for _, noopt := range []bool{false, true} {
				k := fmt.Sprintf("eval:%s ### %s|noopt=%v", f1, f2, noopt)
				if c.Skip(k) {
					continue
				}
				c.Mark(k)
				c.AddEval(1)
				p, prob := evalPair(f1, f2, noopt)
				if p != nil {
					c.Violation(k, fmt.Sprintf("Eval session panics on fragments %q then %q: %v", f1, f2, p), nil)
				} else if prob != "" {
					c.Violation(k, fmt.Sprintf("Eval session produces malformed bytecode for %q then %q: %s", f1, f2, prob), nil)
				}
			}
			c.Nontrivial()
		}
	}
}

// fragments that fail to compile AFTER having changed the session's compile-time state (module store, symbol table,
// constants): a later fragment meets whatever the failed one left behind
func init() {
	for _, eff := range []string{"m := import(\"m1\")", "m := import(\"bm\")", "q := 1", "const kq = 2", "fq := func() { return 1 }", "global gq", "[import(\"m1\"), import(\"bm\")]"} {
		for _, bad := range []string{"nosuchname", "zz = ", "return 1 +"} {
			fragments = append(fragments, eff+"; "+bad)
		}
	}
	fragments = append(fragments, "import(\"m1\").x", "import(\"bm\").a", "m := import(\"m1\"); m.f()", "gq", "gq = 1", "q", "kq", "fq()")
}

func evalPair(f1, f2 string, noopt bool) (pan any, problem string) {
	if pan, problem = evalPairMode(f1, f2, noopt, false); pan != nil || problem != "" {
		return
	}
	// the first fragment is compiled but never started (its context is already cancelled): what its compilation left
	// in the session (module store, symbols, constants) is what the second fragment is compiled against
	pan, problem = evalPairMode(f1, f2, noopt, true)
	if problem != "" {
		problem += " (first fragment evaluated under a cancelled context)"
	}
	return
}

func evalPairMode(f1, f2 string, noopt, firstCancelled bool) (pan any, problem string) {
	defer func() {
		if r := recover(); r != nil {
			pan = r
			if firstCancelled {
				pan = fmt.Sprintf("%v (first fragment evaluated under a cancelled context)", r)
			}
		}
	}()
	ev := ugo.NewEval(ugo.CompilerOptions{NoOptimize: noopt, ModuleMap: modmap()}, ugo.Map{})
	ctx, cancel := context.WithTimeout(context.Background(), 2*time.Second)
	defer cancel()
	dead, kill := context.WithCancel(context.Background())
	kill()
	for i, f := range []string{f1, f2, "return 1"} {
		cx := ctx
		if i == 0 && firstCancelled {
			cx = dead
		}
		_, bc, err := ev.Run(cx, []byte(f))
		_ = err
		if bc != nil {
			// compiled (Eval.Run returns the Bytecode also when the run then fails)
			if p := bcv.Verify(bc); p != "" {
				return nil, p
			}
		}
	}
	return nil, ""
}

func enumLex(c *fw.Ctx, e *env, lex []string, n int, cfgs []cfg) {
	toks := make([]string, 0, n)
	var rec func(d int)
	rec = func(d int) {
		if d > 0 && c.Next() {
			src := strings.Join(toks, " ")
			e.try("lex:"+src, src, cfgs, false)
		}
		if d == n {
			return
		}
		for _, l := range lex {
			toks = append(toks, l)
			rec(d + 1)
			toks = toks[:len(toks)-1]
		}
	}
	rec(0)
}

type capProg struct {
	name    string
	src     string
	wantErr bool
}

func rep(n int, f func(i int) string, sep string) string {
	parts := make([]string, n)
	for i := range parts {
		parts[i] = f(i)
	}
	return strings.Join(parts, sep)
}

func capacityPrograms(thorough bool) []capProg {
	var out []capProg
	add := func(name, src string, wantErr bool) { out = append(out, capProg{name, src, wantErr}) }
	v := func(i int) string { return fmt.Sprintf("v%d", i) }
	for _, n := range []int{255, 256, 257, 300} {
		over := n > 256
		add(fmt.Sprintf("locals-main-%d", n), rep(n, func(i int) string { return v(i) + " := " + fmt.Sprint(i) }, "\n")+"\nreturn v0", over)
		add(fmt.Sprintf("locals-var-main-%d", n), "var ("+rep(n, v, ", ")+")\nreturn v0", over)
		add(fmt.Sprintf("locals-func-%d", n), "f := func() {\n"+rep(n, func(i int) string { return v(i) + " := " + fmt.Sprint(i) }, "\n")+"\nreturn v0\n}\nreturn f()", over)
		add(fmt.Sprintf("locals-block-%d", n), "if true {\n"+rep(n, func(i int) string { return v(i) + " := " + fmt.Sprint(i) }, "\n")+"\n}\nreturn 1", over)
		add(fmt.Sprintf("locals-nested-blocks-%d", n), "a := 0\nif a == 0 {\n"+rep(n/2, func(i int) string { return v(i) + " := 1" }, "\n")+"\nif a == 0 {\n"+rep(n-n/2, func(i int) string { return "w" + fmt.Sprint(i) + " := 1" }, "\n")+"\n}\n}\nreturn a", over)
		add(fmt.Sprintf("params-%d", n), "f := func("+rep(n, v, ", ")+") { return v0 }\nreturn f", over)
		add(fmt.Sprintf("params-variadic-%d", n), "f := func("+rep(n-1, v, ", ")+", ...rest) { return rest }\nreturn f", over)
		add(fmt.Sprintf("param-stmt-%d", n), "param ("+rep(n, v, ", ")+")\nreturn v0", over)
		add(fmt.Sprintf("params-plus-locals-%d", n), "f := func("+rep(n-2, v, ", ")+") { x := 1; y := 2; return x + y }\nreturn f", over)
		add(fmt.Sprintf("destructuring-targets-%d", n), rep(n, v, ", ")+" := [1]\nreturn v0", over)
		add(fmt.Sprintf("forin-in-%d-locals", n), rep(n-2, func(i int) string { return v(i) + " := 1" }, "\n")+"\nfor k, x in [1] { return k }\nreturn 0", over)
		add(fmt.Sprintf("catch-ident-in-%d-locals", n), rep(n-1, func(i int) string { return v(i) + " := 1" }, "\n")+"\ntry { } catch e { return e }\nreturn 0", over)
		// call arguments: operand is one byte
		add(fmt.Sprintf("call-args-%d", n), "f := func(...a) { return len(a) }\nreturn f("+rep(n, func(i int) string { return "1" }, ", ")+")", n > 255)
		add(fmt.Sprintf("callname-args-%d", n), "m := {f: func(...a) { return len(a) }}\nreturn m.f("+rep(n, func(i int) string { return "1" }, ", ")+")", n > 255)
		// free variables of a closure: operand is one byte
		add(fmt.Sprintf("free-vars-%d", n), "f := func() {\n"+rep(n-1, func(i int) string { return v(i) + " := " + fmt.Sprint(i) }, "\n")+"\nreturn func() { return "+rep(n-1, v, " + ")+" }\n}\nreturn f()()", n-1 > 255)
		// selector chain: OpGetIndex operand is one byte
		add(fmt.Sprintf("selector-chain-%d", n), "m := {}\nreturn m"+rep(n, func(i int) string { return ".a" }, ""), false)
		add(fmt.Sprintf("index-chain-%d", n), "m := {}\nreturn m"+rep(n, func(i int) string { return "[0]" }, ""), n > 255)
		// nested try depth: OpFinalizer operand is one byte
		add(fmt.Sprintf("nested-try-%d", n), "f := func() {\n"+rep(n, func(i int) string { return "try {" }, "\n")+"\nreturn 1\n"+rep(n, func(i int) string { return "} finally { }" }, "\n")+"\n}\nreturn f()", false)
		add(fmt.Sprintf("nested-try-break-%d", n), "for {\n"+rep(n, func(i int) string { return "try {" }, "\n")+"\nbreak\n"+rep(n, func(i int) string { return "} finally { }" }, "\n")+"\n}\nreturn 1", false)
	}
	for _, n := range []int{65535, 65536, 65537} {
		over := n > 65535
		add(fmt.Sprintf("array-elems-%d", n), "return ["+rep(n, func(i int) string { return "1" }, ",")+"]", over)
		add(fmt.Sprintf("map-pairs-%d", n/2), "return {"+rep(n/2+1, func(i int) string { return fmt.Sprintf("k%d:1", i) }, ",")+"}", 2*(n/2+1) > 65535)
		add(fmt.Sprintf("constants-%d", n), "return ["+rep(66, func(j int) string {
			return "[" + rep(n/66+1, func(i int) string { return fmt.Sprint(j*100000 + i) }, ",") + "]"
		}, ",")+"]", 66*(n/66+1) > 65536)
		add(fmt.Sprintf("string-constants-%d", n), "x := 0\n"+rep(n, func(i int) string { return fmt.Sprintf("x = \"s%d\"", i) }, "\n")+"\nreturn x", over)
	}
	// jump distance: a long body behind a condition (positions beyond 16 bits are fine in version 2)
	add("long-jump", "x := 0\nif x == 1 {\n"+rep(30000, func(i int) string { return "x = x + 1" }, "\n")+"\n}\nreturn x", false)
	// nesting depths
	depths := []int{100, 1000, 5000}
	if thorough {
		depths = append(depths, 10000)
	}
	for _, n := range depths {
		add(fmt.Sprintf("paren-depth-%d", n), "return "+strings.Repeat("(", n)+"1"+strings.Repeat(")", n), false)
		add(fmt.Sprintf("array-depth-%d", n), "return "+strings.Repeat("[", n)+strings.Repeat("]", n), false)
		add(fmt.Sprintf("unary-depth-%d", n), "return "+strings.Repeat("-", n)+"1", false)
		add(fmt.Sprintf("binary-chain-%d", n), "x := 1\nreturn "+rep(n, func(i int) string { return "x" }, " + "), false)
		add(fmt.Sprintf("const-binary-chain-%d", n), "return "+rep(n, func(i int) string { return "1" }, " + "), false)
		add(fmt.Sprintf("block-depth-%d", n), strings.Repeat("if true {\n", n)+"x := 1\n"+strings.Repeat("}\n", n)+"return 0", false)
		if n <= 1000 {
			// the optimizer passes over nested function literals are polynomial in the depth (1600 levels: 1.6 s); 5000 would
			// exceed the watchdog without being a non-termination
			add(fmt.Sprintf("func-depth-%d", n), "return "+strings.Repeat("func() { return ", n)+"1"+strings.Repeat(" }", n), false)
		}
		add(fmt.Sprintf("unclosed-paren-%d", n), "return "+strings.Repeat("(", n), false)
		add(fmt.Sprintf("unclosed-brace-%d", n), strings.Repeat("if true {\n", n), false)
	}
	// modules
	for _, n := range []int{10, 300} {
		add(fmt.Sprintf("many-imports-%d", n), rep(n, func(i int) string { return fmt.Sprintf("m%d := import(\"m1\")", i%250) }, "\n")+"\nreturn 1", false)
	}
	return out
}

var seeds = []string{
	"a := 1 \n return a + 1",
	"var ( a , b = 2 ) \n return b",
	"const ( a = iota , b ) \n return b",
	"param ( a , ... b ) \n global g \n g = a \n return b",
	"f := func ( a , ... b ) { return a } \n return f ( 1 , ... [ 2 ] )",
	"if a := 1 ; a == 1 { return a } else if a == 2 { return 2 } else { return 3 }",
	"for i := 0 ; i < 2 ; i ++ { if i == 1 { continue } \n break }",
	"for k , v in [ 1 , 2 ] { return k + v }",
	"for v in { a : 1 } { return v }",
	"for { break }",
	"try { throw \"s\" } catch e { return e } finally { a := 1 }",
	"try { return 1 } finally { }",
	"m := { a : 1 , \"b\" : [ 1 , 2 ] } \n m . a = m [ \"b\" ] [ 0 ] \n return m . b [ 0 : 1 ]",
	"a , b := [ 1 , 2 ] \n a , b = b , a",
	"x := true ? 1 : 2 \n return x && 0 || 3",
	"s := import ( \"m1\" ) \n return s . f ( )",
	"a := 1 \n a += 2 \n a <<= 1 \n a ++ \n return - a + ! a ^ 1",
	"return func ( ) { return func ( ) { return 1 } } ( ) ( )",
	"return 1 % 0",
	"return [ 1 , 2u , 1.5 , 'c' , \"s\" , true , undefined ] [ 1 ]",
	"var f \n f = func ( n ) { return n == 0 ? 0 : f ( n - 1 ) } \n return f ( 3 )",
	"x := 0 \n for x < 3 { x ++ } \n return x",
	"throw error ( \"x\" )",
	"return len ( \"abc\" ) + int ( \"7\" )",
	"const k = 2 \n return k * k",
	"a := [ ] \n a = append ( a , 1 ) \n return a",
	"if true { a := 1 \n if a { b := a } }",
	"f := func ( ) { try { return 1 } catch { return 2 } finally { return 3 } } \n return f ( )",
	"return { }",
	"return 1 << - 1",
	"a := 1 ; b := 2 ; return a",
	"return \"a\" + 1 + 'c'",
	"x := undefined \n return x . y . z",
	"return ( 1 + 2 ) * 3",
	"global ( g1 , g2 ) \n g1 = g2",
	"return ! true",
	"for i , v in \"str\" { }",
	"m := { } \n m . f = func ( ) { return 1 } \n return m . f ( )",
	"return 0x10 + 010 + 0b11 + 1e3",
	"f := func ( ... a ) { return a } \n return f ( ... [ ] )",
}

var fragments = []string{
	"a := 1", "a = 2", "a", "var a", "var (a, b = 2)", "const a = 1", "const (c1 = iota, c2)", "a := 1; a := 2", "a = ", "return a", "return", "b := a + 1", "param a", "param (a, b)", "global g", "g = 1",
	"f := func() { return a }", "f()", "f = func(x) { return x }", "f(1)", "f := ", "func(", "if a { b := 1 }", "for i := 0; i < 2; i++ { a := i }", "for k, v in [1] { }", "for a, b, c in x { }",
	"try { throw 1 } catch e { }", "try { } finally { a = 3 }", "try {", "throw a", "m := import(\"m1\")", "m := import(\"nope\")", "m := import(\"bm\")", "m.x", "x, y := [1, 2]", "x, a := [1, 2]",
	"a, b = [b, a]", "1 % 0", "1 << -1", "int(\"x\")", "len := 1", "len(\"a\")", "int := func(x) { return 5 }", "int(\"7\")", "iota := 1", "const (i1 = iota)", "a++", "a += 1", "a.b = 1",
	"undefined.x = 1", "[1, 2][5]", "{a: 1}", "\"s\" + 1", "'c'", "1.5e400", "0x", "\"unterminated", "/* unterminated", "a := func() { return a }", "break", "continue", "}", ")", "", "\n", ";", "a b",
}
