package c05

import (
	"fmt"
	"strings"

	"verif/internal/fw"
)

// Family E7: one name declared twice, by every pair of declaration kinds, in every scope relation. The compiler keeps
// one table per scope that also caches what a scope merely refers to (globals, builtins, constants); a declaration form
// that finds such an entry must not use its index as a local slot. A prefix of constants makes a constant or global
// index used by mistake as a local index fall outside the function's locals, where the well-formedness check sees it.
var e7First = []string{"", "N := 0", "var N", "const N = 0", "global N", "param N", "N := 0; f0 := func() { return N }", "N([])", "param ...N"}

var e7Second = []string{
	"N := 1", "N, y := [1, 2]", "y, N := [1, 2]", "N, N := [1, 2]", "var N = 1", "const N = 1", "global N", "param N",
	"for N := 0; N < 1; N++ {}", "for N, v in [1] {}", "for k, N in [1] {}", "try { throw 1 } catch N {}",
	"N = 1", "N += 1", "N++", "N, y = [1, 2]", "N.x = 1", "N[0], y = [1, 2]",
	"f1 := func(N) { return N }", "f1 := func(...N) { return N }", "f1 := func() { N, y := [1, 2]; return N }", "f1 := func() { N = 3 }",
	"f1 := func() { y, N := [1, 2]; f2 := func() { return N }; return f2 }", "f1 := func() { try { throw 1 } catch N { return N } }",
}

var e7Places = []struct{ name, tmpl string }{
	{"same-scope", "P D1; D2; return N"},
	{"function-body", "P f := func() { D1; D2; return N }; return f()"},
	{"loop-block", "P D1; for i := 0; i < 1; i++ { D2 }; return N"},
	{"nested-function", "P D1; f := func() { D2; return N }; return f()"},
	{"try-block", "P D1; try { D2 } finally { N }"},
}

func runE7(c *fw.Ctx, e *env, cfgs []cfg) {
	c.Family("E7:declaration-pairs", fmt.Sprintf("%d first x %d second declaration forms of one name (a, len) x %d scope relations x {0, 6} leading constants", len(e7First), len(e7Second), len(e7Places)))
	for _, name := range []string{"a", "len"} {
		for _, pre := range []string{"", "k0 := [\"c1\", \"c2\", \"c3\", \"c4\", \"c5\", \"c6\"]; "} {
			for _, pl := range e7Places {
				for i1, d1 := range e7First {
					for i2, d2 := range e7Second {
						if !c.Next() {
							continue
						}
						src := pl.tmpl
						src = strings.Replace(src, "P ", pre, 1)
						src = strings.Replace(src, "D1; ", strings.ReplaceAll(d1, "N", name)+"; ", 1)
						src = strings.Replace(src, "D2", strings.ReplaceAll(d2, "N", name), 1)
						src = strings.ReplaceAll(src, "return N", "return "+name)
						src = strings.ReplaceAll(src, "{ N }", "{ "+name+" }")
						src = strings.ReplaceAll(src, "; ; ", "; ")
						e.try(fmt.Sprintf("decl-pair:%s:%s:k%d:%d:%d", name, pl.name, len(pre), i1, i2), src, cfgs, false)
					}
				}
			}
		}
	}
}
