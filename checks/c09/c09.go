//go:build vsched

// Package c09 decides C09: Abort and context cancellation are never lost.
// Every scenario is a closed 2-3 thread driver over the real VM / Eval / Invoker
// code, explored under the controlled scheduler (all schedules up to a
// preemption bound; every sync, atomic, pool, channel and spawn operation of
// the repository's code is a scheduling point).
package c09

import (
	"context"
	"encoding/json"
	"errors"
	"fmt"
	"os"
	"os/exec"
	"path/filepath"
	"sort"
	"strings"
	"time"

	"github.com/ozanh/ugo"
	ugostrings "github.com/ozanh/ugo/stdlib/strings"
	ugotime "github.com/ozanh/ugo/stdlib/time"
	"github.com/ozanh/ugo/vshim/vsched"

	"verif/internal/fw"
)

const (
	horizonPolls = 60   // H: polls allowed after the abort / cancel call returned
	quantum      = 12   // consecutive polls before a thread must yield (fair scheduling)
	maxPoints    = 6000 // hard cap of one execution
)

func init() {
	fw.Register(&fw.Check{
		ID:    "C09",
		Level: "model_checking",
		Rule: "closed drivers over the real code, built from /repo's working tree with sync, sync/atomic, `go`, select, <-ch and close rewritten to a controlled scheduler (one thread runs at a time; every Mutex/RWMutex/Pool/atomic/channel/spawn operation is a scheduling point, pool Get is a choice recycled|new). " +
			"Scenarios: root (VM.Run of a spinning or terminating script || 1-2 Abort calls), reuse (two Runs on one VM || Abort), child (script inside a Go callback that runs script functions through Invoker, pooled or not, once or twice, spinning or terminating || Abort), " +
			"eval (Eval.Run incl. compilation, goroutine start and both selects || cancellation of the context; one or two evaluations), clear (Abort || Clear/second Run), cmd-ugo (executeScript of the ugo command, driven from a harness injected into its package main), stdlib (the real time.Sleep builtin on root and child VM with its sleeps turned into yields, the real strings.Map). " +
			"For each scenario ALL schedules with at most B preemptions (quick 2, thorough 4) are executed by stateless depth-first search; fair yield after 12 consecutive polls; an execution is cut 60 polls after the last Abort/cancel returned. " +
			"Oracle per execution: no deadlock, no panic; once an Abort whose flag store follows the reset of the Run in progress has returned, Run returns VMAbortedError within 60 polls (also while a child VM spins); a Run reports VMAbortedError only if an Abort was called after its reset; a Run with no such Abort returns its normal value; " +
			"Eval.Run returns within 60 polls after cancellation, with a non-nil error if the script cannot end by itself or the context was cancelled before the call; a later evaluation with a live context returns its normal value. " +
			"states = distinct scheduler states (pending operation of every thread, lock owners, atomic values, pool sizes) per exploration unit, summed; transitions = executed scheduling points, traces = executions; every execution is replayed from its choice prefix and compared event by event with the execution it branches from (divergence = infrastructure error); " +
			"non-trivial = executions in which the abort/cancel landed between the first and the last operation of the run it targets",
		Run:            run09,
		Shards:         16,
		MarkCases:      true,
		ThoroughBudget: 90 * time.Minute,
		WorkerEnv:      []string{"GOMAXPROCS=1"},
		Assumptions: []string{
			"sequential consistency (Go atomics are SC; unsynchronised sharing is C08's race pass)",
			"at most 3 threads, at most B preemptions; fairness: a thread yields after 12 consecutive polls",
			"Abort that precedes the flag reset of Run counts as 'before Run was entered' for the raw VM API (the optimizer itself relies on Abort-then-Run running normally); no such excuse for Eval.Run",
		},
	})
}

// ---- observations ---------------------------------------------------------------

const (
	codeOK = iota
	codeAborted
	codeCtx
	codeOther
)

func errCode(err error) int64 {
	switch {
	case err == nil:
		return codeOK
	case errors.Is(err, ugo.ErrVMAborted):
		return codeAborted
	case errors.Is(err, context.Canceled), errors.Is(err, context.DeadlineExceeded):
		return codeCtx
	}
	return codeOther
}

func codeName(c int64) string {
	return [...]string{"ok", "VMAbortedError", "context error", "other error"}[c]
}

// sctx is a context whose cancellation is a scheduling point.
type sctx struct {
	done chan struct{}
	err  error
}

func newCtx() *sctx { return &sctx{done: make(chan struct{})} }

func (c *sctx) Deadline() (t0 time.Time, ok bool) { return }
func (c *sctx) Done() <-chan struct{}             { return c.done }
func (c *sctx) Err() error                        { return c.err }
func (c *sctx) Value(any) any                     { return nil }
func (c *sctx) cancel() {
	if c.err == nil {
		c.err = context.Canceled
		vsched.Close(c.done)
	}
}

// ---- scenarios --------------------------------------------------------------------

type scenario struct {
	key       string
	desc      string
	nonterm   []bool  // per run of the main thread: the script cannot end by itself
	want      []int64 // per run: value of a normal return
	body      func()
	eval      bool // judged with the Eval rules
	cancelRun int  // eval: index of the evaluation that runs under the context that is cancelled
}

func compile(src string) *ugo.Bytecode {
	opts := ugo.CompilerOptions{NoOptimize: true}
	bc, err := ugo.Compile([]byte(src), opts)
	if err != nil {
		panic(fmt.Sprintf("c09: harness script does not compile: %v\n%s", err, src))
	}
	return bc
}

func intOf(o ugo.Object) int64 {
	if i, ok := o.(ugo.Int); ok {
		return int64(i)
	}
	return -1
}

const (
	spin = `for {}`
	// endless loops without a single jump instruction: a self call in tail position re-uses its frame
	spinTail = "var s\ns = func(n) { return s(n + 1) }\nreturn s(0)\n"
	// ... the same through a selector call (its own call instruction)
	spinSelector = "m := {}\nm.spin = func(n) { return m.spin(n + 1) }\nreturn m.spin(0)\n"
	// ... and one made of calls and jumps (the loop body calls a function that loops a little itself)
	spinCalls = "w := func() { for i := 0; i < 2; i++ { } }\nfor { w() }\n"
	fin       = `x := 0; for i := 0; i < 3; i++ { x += i }; return x` // 3
	fin2      = `return 7`
)

func scriptName(s string) string {
	switch s {
	case spin:
		return "spin"
	case spinTail:
		return "spin-tail-calls"
	case spinCalls:
		return "spin-calls"
	case spinSelector:
		return "spin-selector-tail-calls"
	case fin:
		return "loop3"
	case fin2:
		return "ret7"
	}
	return s
}

func runVM(vm *ugo.VM, k int64, globals ugo.Object, args ...ugo.Object) {
	vsched.Note("run-call", k)
	ret, err := vm.Run(globals, args...)
	if err == nil {
		vsched.Note("run-val", intOf(ret))
	}
	vsched.Note("run-ret", errCode(err))
}

func aborter(vm *ugo.VM, n int) func() {
	return func() {
		for i := 0; i < n; i++ {
			vsched.Note("abort-call", int64(i))
			vm.Abort()
			vsched.Note("abort-ret", int64(i))
		}
	}
}

func wantOf(s string) int64 {
	switch s {
	case fin:
		return 3
	case fin2:
		return 7
	}
	return -1
}

func scenarios(thorough bool) []*scenario {
	var out []*scenario
	// root: one Run, 1-2 aborts, possibly from two threads
	for _, s := range []string{spin, fin, fin2, spinTail, spinCalls, spinSelector} {
		for _, n := range []int{1, 2} {
			s, n := s, n
			if n == 2 && (s == spinTail || s == spinCalls || s == spinSelector) {
				continue
			}
			bc := compile(s)
			out = append(out, &scenario{
				key:     fmt.Sprintf("root script=%s aborts=%d", scriptName(s), n),
				desc:    "T1 vm.Run(script) || T2 vm.Abort() x n",
				nonterm: []bool{s == spin || s == spinTail || s == spinCalls || s == spinSelector}, want: []int64{wantOf(s)},
				body: func() {
					vm := ugo.NewVM(bc)
					vsched.Go("run", func() { runVM(vm, 0, nil) })
					vsched.Go("abort", aborter(vm, n))
				},
			})
		}
	}
	{
		bc := compile(spin)
		out = append(out, &scenario{
			key:     "root script=spin two aborting threads",
			desc:    "T1 vm.Run(for{}) || T2 vm.Abort() || T3 vm.Abort()",
			nonterm: []bool{true}, want: []int64{-1},
			body: func() {
				vm := ugo.NewVM(bc)
				vsched.Go("run", func() { runVM(vm, 0, nil) })
				vsched.Go("abort", aborter(vm, 1))
				vsched.Go("abort", aborter(vm, 1))
			},
		})
	}
	// reuse: two runs on one VM
	for _, p := range [][2]string{{spin, fin}, {fin, fin}, {fin2, spin}, {spin, spin}, {fin2, fin2}} {
		for _, n := range []int{1, 2} {
			p, n := p, n
			if n == 2 && p[0] != spin {
				continue
			}
			bc1, bc2 := compile(p[0]), compile(p[1])
			out = append(out, &scenario{
				key:     fmt.Sprintf("reuse scripts=%s,%s aborts=%d", scriptName(p[0]), scriptName(p[1]), n),
				desc:    "T1 vm.Run(s1); vm.SetBytecode(s2).Run() || T2 vm.Abort() x n",
				nonterm: []bool{p[0] == spin, p[1] == spin}, want: []int64{wantOf(p[0]), wantOf(p[1])},
				body: func() {
					vm := ugo.NewVM(bc1)
					vsched.Go("run", func() {
						runVM(vm, 0, nil)
						vm.SetBytecode(bc2)
						runVM(vm, 1, nil)
					})
					vsched.Go("abort", aborter(vm, n))
				},
			})
		}
	}
	// reuse of call frames: the first run is aborted while nested calls are inside try statements; the second run
	// throws at the same call depths and must be caught where its own handlers say
	for _, depth := range []int{1, 2} {
		depth := depth
		s1 := "g := func() { for {} }\nf := func() { try { g() } catch e { return 1 } finally { } }\n"
		if depth == 2 {
			s1 += "f0 := func() { try { f() } finally { } }\nf0()\n"
		} else {
			s1 += "f()\n"
		}
		s2 := "zero := 0\nh := func() { return 1 / zero }\nk := func() { return [h()] }\nk0 := func() { return [k()] }\ntry { k0() } catch e { return 7 }\nreturn 0\n"
		bc1, bc2 := compile(s1), compile(s2)
		out = append(out, &scenario{
			key:     fmt.Sprintf("reuse-frames try depth=%d", depth),
			desc:    "T1 vm.Run(nested calls inside try, innermost spins); vm.SetBytecode(s2).Run(error thrown 3 calls deep, caught by main) || T2 vm.Abort()",
			nonterm: []bool{true, false}, want: []int64{-1, 7},
			body: func() {
				vm := ugo.NewVM(bc1)
				vsched.Go("run", func() {
					runVM(vm, 0, nil)
					vm.SetBytecode(bc2)
					runVM(vm, 1, nil)
				})
				vsched.Go("abort", aborter(vm, 1))
			},
		})
	}
	// clear: Abort concurrent with Clear and a second run on the same bytecode
	{
		bc := compile(fin)
		out = append(out, &scenario{
			key:     "clear script=loop3",
			desc:    "T1 vm.Run(s); vm.Clear(); vm.SetBytecode(s).Run() || T2 vm.Abort()",
			nonterm: []bool{false, false}, want: []int64{3, 3},
			body: func() {
				vm := ugo.NewVM(bc)
				vsched.Go("run", func() {
					runVM(vm, 0, nil)
					vm.Clear()
					vm.SetBytecode(bc)
					runVM(vm, 1, nil)
				})
				vsched.Go("abort", aborter(vm, 1))
			},
		})
	}
	// child: script functions run on child VMs from inside a Go callback
	type childVar struct {
		fn     string // body of the script function given to the callback
		pooled bool
		calls  int
		after  string // what the root script does after the callback
	}
	var cvs []childVar
	for _, fn := range []string{"for {}", "return 1"} {
		for _, pooled := range []bool{true, false} {
			for _, calls := range []int{1, 2} {
				for _, after := range []string{"for {}", "return 7"} {
					if fn == "for {}" && calls == 2 && !thorough {
						continue
					}
					cvs = append(cvs, childVar{fn, pooled, calls, after})
				}
			}
		}
	}
	// a function that returns at its first call and spins from the second call on (the child VM of an Invoker
	// is re-used by its later calls)
	const second = "n++; if n > 1 { for {} }; return 1"
	for _, pooled := range []bool{true, false} {
		cvs = append(cvs, childVar{second, pooled, 2, "return 7"})
	}
	for _, cv := range cvs {
		cv := cv
		src := fmt.Sprintf("param cb\nn := 0\nf := func() { %s }\ncb(f)\n%s", cv.fn, cv.after)
		bc := compile(src)
		nonterm := cv.fn == "for {}" || cv.after == "for {}" || cv.fn == second
		out = append(out, &scenario{
			key:     fmt.Sprintf("child fn=%q pooled=%v calls=%d after=%q", cv.fn, cv.pooled, cv.calls, cv.after),
			desc:    "T1 vm.Run(script calling a Go callback that runs a script function through Invoker) || T2 vm.Abort()",
			nonterm: []bool{nonterm}, want: []int64{7},
			body: func() {
				vm := ugo.NewVM(bc)
				cb := &ugo.Function{Name: "cb", ValueEx: func(c ugo.Call) (ugo.Object, error) {
					inv := ugo.NewInvoker(c.VM(), c.Get(0))
					if cv.pooled {
						inv.Acquire()
						defer inv.Release()
					}
					for i := 0; i < cv.calls; i++ {
						vsched.Note("invoke-call", int64(i))
						_, err := inv.Invoke()
						vsched.Note("invoke-ret", errCode(err))
						if err != nil {
							return nil, err
						}
					}
					return ugo.Undefined, nil
				}}
				vsched.Go("run", func() { runVM(vm, 0, nil, cb) })
				vsched.Go("abort", aborter(vm, 1))
			},
		})
	}
	// two callbacks in a row (pooled child VM is released and acquired again while Abort walks the pool)
	{
		src := "param cb\nf := func() { return 1 }\ng := func() { for {} }\ncb(f)\ncb(g)\nreturn 7"
		bc := compile(src)
		out = append(out, &scenario{
			key:     "child two callbacks, second spins, pooled",
			desc:    "T1 vm.Run(cb(f); cb(g)) with pooled child VMs || T2 vm.Abort()",
			nonterm: []bool{true}, want: []int64{7},
			body: func() {
				vm := ugo.NewVM(bc)
				cb := &ugo.Function{Name: "cb", ValueEx: func(c ugo.Call) (ugo.Object, error) {
					inv := ugo.NewInvoker(c.VM(), c.Get(0))
					inv.Acquire()
					defer inv.Release()
					_, err := inv.Invoke()
					vsched.Note("invoke-ret", errCode(err))
					return ugo.Undefined, err
				}}
				vsched.Go("run", func() { runVM(vm, 0, nil, cb) })
				vsched.Go("abort", aborter(vm, 1))
			},
		})
	}
	// reuse with callbacks: the pooled child VM of the first run is released (possibly aborted) and acquired again
	// by the second run
	for _, fn1 := range []string{"for {}", "return 1"} {
		fn1 := fn1
		bc1 := compile(fmt.Sprintf("param cb\nf := func() { %s }\ncb(f)\nreturn 7", fn1))
		bc2 := compile("param cb\nf := func() { return 1 }\ncb(f)\nreturn 7")
		out = append(out, &scenario{
			key:     fmt.Sprintf("reuse-child first fn=%q, pooled", fn1),
			desc:    "T1 vm.Run(cb(f1)); vm.SetBytecode(s2).Run(cb(f2)) with pooled child VMs || T2 vm.Abort()",
			nonterm: []bool{fn1 == "for {}", false}, want: []int64{7, 7},
			body: func() {
				vm := ugo.NewVM(bc1)
				cb := &ugo.Function{Name: "cb", ValueEx: func(c ugo.Call) (ugo.Object, error) {
					inv := ugo.NewInvoker(c.VM(), c.Get(0))
					inv.Acquire()
					defer inv.Release()
					_, err := inv.Invoke()
					vsched.Note("invoke-ret", errCode(err))
					return ugo.Undefined, err
				}}
				vsched.Go("run", func() {
					runVM(vm, 0, nil, cb)
					vm.SetBytecode(bc2)
					runVM(vm, 1, nil, cb)
				})
				vsched.Go("abort", aborter(vm, 1))
			},
		})
	}
	// nested call-backs: the function run on a child VM calls back into Go, which runs another script function on a
	// grandchild VM (pooled, released before the abort); the abort arrives while the child spins. Pooled VMs of the
	// aborted run are met again by the later run - on the same VM, or on a VM that nobody ever aborted.
	for _, otherVM := range []bool{false, true} {
		otherVM := otherVM
		bc1 := compile("param cb\ng := func() { return 1 }\nf := func() { cb(g); for {} }\ncb(f)\nreturn 7")
		bc2 := compile("param cb\ng := func() { return 1 }\nf := func() { cb(g); return 1 }\ncb(f)\nreturn 7")
		out = append(out, &scenario{
			key:     fmt.Sprintf("nested-callbacks then a later run, other VM=%v", otherVM),
			desc:    "T1 vm.Run(cb(f)), f on a child VM calls cb(g) (grandchild VM, released) and spins; then a second run with the same call-backs on the same or on a new VM || T2 vm.Abort()",
			nonterm: []bool{true, false}, want: []int64{7, 7},
			body: func() {
				vm := ugo.NewVM(bc1)
				// The aborting thread starts once the first inner call-back has returned and its VM is released: from
				// then on at most one child VM is registered at a time (Abort walks a Go map of the registered
				// children; with two entries its order would be a nondeterminism the scheduler does not own).
				innerDone := make(chan struct{})
				released := 0
				depth := 0
				var cb *ugo.Function
				cb = &ugo.Function{Name: "cb", ValueEx: func(c ugo.Call) (ugo.Object, error) {
					inv := ugo.NewInvoker(c.VM(), c.Get(0))
					inv.Acquire()
					depth++
					_, err := inv.Invoke()
					depth--
					inv.Release()
					if depth == 1 && released == 0 {
						released = 1
						vsched.Close(innerDone)
					}
					vsched.Note("invoke-ret", errCode(err))
					return ugo.Undefined, err
				}}
				vsched.Go("run", func() {
					runVM(vm, 0, nil, cb)
					vm2 := vm
					if otherVM {
						vm2 = ugo.NewVM(bc2)
					} else {
						vm.SetBytecode(bc2)
					}
					runVM(vm2, 1, nil, cb)
				})
				vsched.Go("abort", func() {
					vsched.Wait(innerDone)
					aborter(vm, 1)()
				})
			},
		})
	}
	// stdlib: the real time.Sleep builtin (polls VM.Aborted between 10 ms sleeps; the sleeps are scheduler yields
	// here) on the root VM and on a child VM, and the real strings.Map running a spinning function
	for _, sv := range []struct{ key, src string }{
		{"stdlib time.Sleep on the root VM", "time := import(\"time\")\ntime.Sleep(3600000000000)\nreturn 7"},
		{"stdlib time.Sleep on a pooled child VM", "param cb\ntime := import(\"time\")\nf := func() { time.Sleep(3600000000000); return 1 }\ncb(f)\nreturn 7"},
		{"stdlib strings.Map with a spinning function", "strings := import(\"strings\")\nreturn strings.Map(func(c) { for {} }, \"ab\")"},
		{"stdlib strings.Map with a terminating function, then spin", "strings := import(\"strings\")\ns := strings.Map(func(c) { return c + 1 }, \"ab\")\nfor {}"},
	} {
		sv := sv
		mm := ugo.NewModuleMap()
		mm.AddBuiltinModule("time", ugotime.Module)
		mm.AddBuiltinModule("strings", ugostrings.Module)
		bc, err := ugo.Compile([]byte(sv.src), ugo.CompilerOptions{NoOptimize: true, ModuleMap: mm})
		if err != nil {
			panic(fmt.Sprintf("c09: %s: %v", sv.key, err))
		}
		out = append(out, &scenario{
			key:     sv.key,
			desc:    "T1 vm.Run(script using the stdlib builtin) || T2 vm.Abort()",
			nonterm: []bool{true}, want: []int64{7},
			body: func() {
				vm := ugo.NewVM(bc)
				cb := &ugo.Function{Name: "cb", ValueEx: func(c ugo.Call) (ugo.Object, error) {
					inv := ugo.NewInvoker(c.VM(), c.Get(0))
					inv.Acquire()
					defer inv.Release()
					_, err := inv.Invoke()
					return ugo.Undefined, err
				}}
				vsched.Go("run", func() { runVM(vm, 0, nil, cb) })
				vsched.Go("abort", aborter(vm, 1))
			},
		})
	}
	// eval: Eval.Run under a context
	type evalVar struct {
		scripts []string
		opt     bool
	}
	evs := []evalVar{{[]string{spin}, false}, {[]string{fin}, false}, {[]string{fin2}, false}, {[]string{spin, fin}, false}, {[]string{fin2, fin2}, false}}
	if thorough {
		evs = append(evs, evalVar{[]string{spin}, true}, evalVar{[]string{fin, spin}, false})
	}
	for _, ev := range evs {
		ev := ev
		names := make([]string, len(ev.scripts))
		nonterm := make([]bool, len(ev.scripts))
		want := make([]int64, len(ev.scripts))
		for i, s := range ev.scripts {
			names[i], nonterm[i], want[i] = scriptName(s), s == spin, wantOf(s)
		}
		if len(ev.scripts) == 2 && ev.scripts[1] == spin {
			// the second evaluation has a live context and a script that cannot end: replace by a script that ends
			continue
		}
		out = append(out, &scenario{
			key:     fmt.Sprintf("eval scripts=%s optimizer=%v", strings.Join(names, ","), ev.opt),
			desc:    "T1 Eval.Run(ctx1, s1) [; Eval.Run(ctx2 never cancelled, s2)] || T2 cancel(ctx1)",
			nonterm: nonterm, want: want, eval: true,
			body: func() {
				opts := ugo.CompilerOptions{NoOptimize: !ev.opt}
				e := ugo.NewEval(opts, nil)
				ctx1, ctx2 := newCtx(), newCtx()
				vsched.Go("run", func() {
					for k, s := range ev.scripts {
						var ctx context.Context = ctx1
						if k == 1 {
							ctx = ctx2
						}
						vsched.Note("run-call", int64(k))
						ret, _, err := e.Run(ctx, []byte(s))
						if err == nil {
							vsched.Note("run-val", intOf(ret))
						}
						vsched.Note("run-ret", errCode(err))
					}
				})
				vsched.Go("abort", func() {
					vsched.Note("abort-call", 0)
					ctx1.cancel()
					vsched.Note("abort-ret", 0)
				})
			},
		})
	}
	// an evaluation under a live context that declares variables, then the cancelled evaluation, then one that uses
	// those variables: the session state survives a cancellation at any moment (also before the run started)
	for _, mid := range []string{spin, fin2} {
		mid := mid
		scripts := []string{"a := 5; c := 2", mid, "return a + c"}
		out = append(out, &scenario{
			key:     fmt.Sprintf("eval three evaluations, the second (%s) is cancelled", scriptName(mid)),
			desc:    "T1 Eval.Run(live, `a := 5; c := 2`); Eval.Run(ctx1, s); Eval.Run(live, `return a + c`) || T2 cancel(ctx1)",
			nonterm: []bool{false, mid == spin, false}, want: []int64{-1, 7, 7}, eval: true, cancelRun: 1,
			body: func() {
				e := ugo.NewEval(ugo.CompilerOptions{NoOptimize: true}, nil)
				ctx1, live := newCtx(), newCtx()
				vsched.Go("run", func() {
					for k, s := range scripts {
						var ctx context.Context = live
						if k == 1 {
							ctx = ctx1
						}
						vsched.Note("run-call", int64(k))
						ret, _, err := e.Run(ctx, []byte(s))
						if err == nil {
							vsched.Note("run-val", intOf(ret))
						}
						vsched.Note("run-ret", errCode(err))
					}
				})
				vsched.Go("abort", func() {
					vsched.Note("abort-call", 0)
					ctx1.cancel()
					vsched.Note("abort-ret", 0)
				})
			},
		})
	}
	return out
}

// ---- cmd/ugo ----------------------------------------------------------------------------

// cmdUgo runs bin/vsched-cmd: package main of github.com/ozanh/ugo/cmd/ugo built with the scheduler overlay, its
// main() replaced by a harness (shim/cmdharness) that explores executeScript - "run a script under a context" as the
// ugo command does it - against a cancelling thread and prints one JSON line per scenario.
func cmdUgo(c *fw.Ctx, bound, script int) {
	exe, err := os.Executable()
	if err != nil {
		c.Infra("cmd-ugo: %v", err)
		return
	}
	bin := filepath.Join(filepath.Dir(exe), "vsched-cmd")
	cmd := exec.Command(bin, fmt.Sprint(bound), fmt.Sprint(script))
	cmd.Env = append(os.Environ(), "GOMAXPROCS=1")
	var so, se strings.Builder
	cmd.Stdout, cmd.Stderr = &so, &se
	if err := cmd.Run(); err != nil {
		c.Violation("cmd/ugo executeScript | crash", fmt.Sprintf("the exploration of executeScript ends abnormally: %v: %s", err, tailStr(se.String(), 1500)), nil)
		return
	}
	type viol struct {
		Class   string `json:"class"`
		What    string `json:"what"`
		Count   int64  `json:"count"`
		Preempt int    `json:"preemptions"`
		Choices []int  `json:"choices"`
		Trace   string `json:"trace"`
	}
	type line struct {
		Scenario    string  `json:"scenario"`
		Schedules   int64   `json:"schedules"`
		Transitions int64   `json:"transitions"`
		States      int64   `json:"states"`
		Cut         int64   `json:"cut"`
		Inside      int64   `json:"cancel_inside_run"`
		Violations  []*viol `json:"violations"`
		Infra       string  `json:"infra"`
		Default     string  `json:"default_schedule_trace"`
	}
	n := 0
	for _, l := range strings.Split(so.String(), "\n") {
		if strings.TrimSpace(l) == "" {
			continue
		}
		var d line
		if err := json.Unmarshal([]byte(l), &d); err != nil {
			c.Infra("cmd-ugo: unreadable line %q", tailStr(l, 200))
			continue
		}
		n++
		if d.Infra != "" {
			c.Infra("%s: %s", d.Scenario, d.Infra)
			continue
		}
		c.AddEval(d.Schedules)
		c.AddTraces(d.Schedules)
		c.AddTransitions(d.Transitions)
		c.AddStates(d.States)
		c.Count("schedules", d.Schedules)
		c.Count("executions_with_abort_inside_run", d.Inside)
		c.Sample(map[string]any{"scenario": d.Scenario, "driver": "T1 executeScript(ctx, script) of cmd/ugo || T2 cancel(ctx)", "schedules": d.Schedules, "preemption_bound": bound, "default_schedule_trace": d.Default})
		if len(d.Violations) == 0 {
			c.Outcome("executeScript returns")
		}
		for _, v := range d.Violations {
			c.Outcome("VIOLATING: " + v.Class)
			c.Violation(d.Scenario+" | "+v.Class, v.What, map[string]any{"scenario": d.Scenario, "failing_schedules": v.Count, "of_schedules": d.Schedules,
				"preemptions_of_shown_schedule": v.Preempt, "choices": v.Choices, "trace": v.Trace, "replay": fmt.Sprintf("./bin/vsched-cmd %d", bound)})
		}
	}
	if n == 0 {
		c.Infra("cmd-ugo: the harness printed nothing: %s", tailStr(se.String(), 500))
	}
}

func tailStr(s string, n int) string {
	if len(s) > n {
		return "..." + s[len(s)-n:]
	}
	return s
}

// ---- analysis of one execution ------------------------------------------------------

type runRec struct {
	call, reset, ret int // event indexes; -1 = did not happen
	code, val        int64
}

type abortRec struct {
	thread           int
	call, store, ret int
}

type analysis struct {
	runs    []runRec
	aborts  []abortRec
	rootObj int
}

func analyse(e *vsched.Exec) *analysis {
	a := &analysis{}
	runT := -1
	for i, ev := range e.Events {
		name := e.ThreadName(ev.Thread)
		switch {
		case ev.Kind == vsched.KNote && ev.Label == "run-call":
			runT = ev.Thread
			a.runs = append(a.runs, runRec{call: i, reset: -1, ret: -1, val: -1})
		case ev.Kind == vsched.KNote && ev.Label == "run-val":
			a.runs[len(a.runs)-1].val = ev.Value
		case ev.Kind == vsched.KNote && ev.Label == "run-ret":
			r := &a.runs[len(a.runs)-1]
			r.ret, r.code = i, ev.Value
		case ev.Kind == vsched.KNote && ev.Label == "abort-call":
			a.aborts = append(a.aborts, abortRec{thread: ev.Thread, call: i, store: -1, ret: -1})
		case ev.Kind == vsched.KNote && ev.Label == "abort-ret":
			for k := len(a.aborts) - 1; k >= 0; k-- {
				if a.aborts[k].thread == ev.Thread && a.aborts[k].ret < 0 {
					a.aborts[k].ret = i
					break
				}
			}
		case ev.Kind == vsched.KStore && ev.Value == 0 && ev.Thread == runT && name == "run":
			// the first store of 0 after a run-call is the flag reset of that Run (of the root VM)
			if n := len(a.runs); n > 0 && a.runs[n-1].reset < 0 && a.runs[n-1].ret < 0 {
				if a.rootObj == 0 {
					a.rootObj = ev.Obj
				}
				if ev.Obj == a.rootObj {
					a.runs[n-1].reset = i
				}
			}
		}
	}
	// root flag stores of the aborting threads
	for k := range a.aborts {
		ab := &a.aborts[k]
		end := ab.ret
		if end < 0 {
			end = len(e.Events)
		}
		for i := ab.call; i < end; i++ {
			ev := e.Events[i]
			if ev.Thread == ab.thread && ev.Kind == vsched.KStore && ev.Value == 1 && a.rootObj != 0 && ev.Obj == a.rootObj {
				ab.store = i
			}
		}
	}
	return a
}

// pollsAfter counts, between two events, the instruction polls of the abort flag (loads) by the threads that
// run scripts and, separately, all waiting steps (loads, selects, polls) of the non-aborting threads.
func pollsAfter(e *vsched.Exec, idx int, until int) (loads, waits int) {
	if until < 0 {
		until = len(e.Events)
	}
	for i := idx + 1; i < until; i++ {
		ev := e.Events[i]
		if e.ThreadName(ev.Thread) == "abort" {
			continue
		}
		switch ev.Kind {
		case vsched.KLoad:
			loads++
			waits++
		case vsched.KSelect, vsched.KPoll:
			waits++
		}
	}
	return
}

// overdue: more than H instruction polls, or (a waiter that polls on a timer) 10 H waiting steps altogether
func overdue(loads, waits int) bool { return loads >= horizonPolls || waits >= 10*horizonPolls }

// judge returns the class and description of the first violated rule ("" = none) and an outcome label.
func (s *scenario) judge(e *vsched.Exec) (class, what, outcome string, nontrivial bool) {
	if e.Panic != "" {
		return "panic", e.Panic, "", false
	}
	a := analyse(e)
	var outs []string
	for k, r := range a.runs {
		end := r.ret
		// aborts that count for this run
		// eff: the flag store of the Abort landed inside this run (after its reset, before its return): the run MUST end;
		// issued: the Abort call was in progress at some moment between the reset and the return of the run: the
		// run MAY end with VMAbortedError (Abort is not atomic: it sets the root flag and the flags of the child VMs)
		var eff, issued []abortRec
		for _, ab := range a.aborts {
			if s.eval {
				if k == s.cancelRun {
					eff = append(eff, ab)
					issued = append(issued, ab)
				}
				continue
			}
			if end >= 0 && ab.call > end {
				continue
			}
			if ab.ret < 0 || r.reset < 0 || ab.ret > r.reset {
				issued = append(issued, ab) // the Abort call overlaps the part of the run that follows its reset
			}
			if r.reset >= 0 && ab.store > r.reset && (end < 0 || ab.store < end) {
				eff = append(eff, ab)
			}
		}
		for _, ab := range eff {
			if ab.call > r.call && (end < 0 || ab.call < end) {
				nontrivial = true
			}
		}
		if end < 0 {
			if e.Deadlock {
				return "deadlock", fmt.Sprintf("deadlock: no thread can continue while run %d has not returned", k+1), "", nontrivial
			}
			for _, ab := range eff {
				if ab.ret >= 0 {
					if n, w := pollsAfter(e, ab.ret, -1); overdue(n, w) {
						if s.eval {
							return "cancel-lost", fmt.Sprintf("Eval.Run (evaluation %d) is still executing %d polls after the context was cancelled", k+1, n), "", nontrivial
						}
						return "abort-lost", fmt.Sprintf("run %d is still executing %d polls after an Abort that followed its flag reset has returned", k+1, n), "", nontrivial
					}
				}
			}
			if !s.nonterm[k] && e.Cut {
				n, _ := pollsAfter(e, r.call, -1)
				return "no-return", fmt.Sprintf("run %d of a script that ends by itself has not returned after %d polls", k+1, n), "", nontrivial
			}
			outs = append(outs, "runs on")
			break
		}
		switch r.code {
		case codeAborted, codeCtx:
			if r.code == codeCtx && !s.eval {
				return "wrong-error", fmt.Sprintf("run %d returned a context error", k+1), "", nontrivial
			}
			if len(issued) == 0 {
				return "spurious-abort", fmt.Sprintf("run %d returned %s although no Abort/cancel was issued after its start", k+1, codeName(r.code)), "", nontrivial
			}
			outs = append(outs, codeName(r.code))
		case codeOK:
			if s.nonterm[k] {
				return "impossible-return", fmt.Sprintf("run %d of a script that cannot end returned normally", k+1), "", nontrivial
			}
			if r.val != s.want[k] {
				return "wrong-value", fmt.Sprintf("run %d returned %d, want %d", k+1, r.val, s.want[k]), "", nontrivial
			}
			if s.eval && k == s.cancelRun {
				for _, ab := range a.aborts {
					if ab.ret >= 0 && ab.ret < r.call {
						return "cancel-ignored", "Eval.Run returned no error although the context was cancelled before the call", "", nontrivial
					}
				}
			}
			outs = append(outs, "value")
		default:
			return "wrong-error", fmt.Sprintf("run %d returned an unexpected error", k+1), "", nontrivial
		}
		for _, ab := range eff {
			if ab.ret >= 0 && ab.ret < end {
				if n, w := pollsAfter(e, ab.ret, end); overdue(n, w) {
					return "abort-slow", fmt.Sprintf("run %d needed %d polls after Abort/cancel returned", k+1, n), "", nontrivial
				}
			}
		}
	}
	if e.Deadlock && len(outs) == 0 {
		return "deadlock", "deadlock before any run started", "", nontrivial
	}
	return "", "", strings.Join(outs, " / "), nontrivial
}

// ---- exploration ------------------------------------------------------------------------

func stopFn(e *vsched.Exec) bool {
	// cut: every aborting thread has finished and the other threads polled horizonPolls times since
	lastRet := -1
	for i, ev := range e.Events {
		if ev.Kind == vsched.KNote && ev.Label == "abort-ret" {
			lastRet = i
		}
	}
	if lastRet < 0 {
		return false
	}
	for t := 0; t < e.NThreads(); t++ {
		if e.ThreadName(t) == "abort" && !e.Done(t) {
			return false
		}
	}
	n, w := pollsAfter(e, lastRet, -1)
	if !overdue(n-2, w-2) {
		return false
	}
	// a run of a script that ends by itself is given 20 times as long before the execution is cut (being cut then
	// means that it does not end)
	if cur := curScenario; cur != nil {
		calls, rets := 0, 0
		for _, ev := range e.Events {
			if ev.Kind == vsched.KNote && ev.Label == "run-call" {
				calls++
			}
			if ev.Kind == vsched.KNote && ev.Label == "run-ret" {
				rets++
			}
		}
		if calls > rets && calls-1 < len(cur.nonterm) && !cur.nonterm[calls-1] {
			return n >= 20*horizonPolls
		}
	}
	return true
}

// curScenario is the scenario being explored (read by stopFn).
var curScenario *scenario

func run09(c *fw.Ctx) {
	bound := 2
	if c.Thorough() {
		bound = 4
	}
	if v := os.Getenv("C09_BOUND"); v != "" {
		fmt.Sscan(v, &bound)
	}
	c.Family("scenarios", fmt.Sprintf("all schedules with <= %d preemptions of every scenario", bound))
	cfg := vsched.Config{Quantum: quantum, Horizon: maxPoints, Stop: stopFn}
	// every scenario is explored in `units` independent parts (by the position of the first deviation) so that the
	// 16 workers share the large scenarios
	units := 1
	if c.Thorough() {
		units = 8
	}
	for _, s := range scenarios(c.Thorough()) {
		for u := 0; u < units; u++ {
			if !c.Next() {
				continue
			}
			if c.Skip(s.key) {
				continue
			}
			c.Mark(fmt.Sprintf("%s [unit %d/%d]", s.key, u, units))
			cfg := cfg
			if units > 1 {
				cfg.TopMod, cfg.TopRem = units, u
			}
			explore(c, s, cfg, bound)
		}
	}
	cb := bound
	if cb > 3 {
		cb = 3
	}
	c.Family("cmd-ugo", fmt.Sprintf("executeScript of cmd/ugo (package main, built with the scheduler overlay) x 4 scripts || cancel: all schedules with <= %d preemptions", cb))
	for si := 0; si < 4; si++ {
		if c.Next() && !c.Skip("cmd/ugo executeScript") {
			c.Mark(fmt.Sprintf("cmd/ugo executeScript script %d", si))
			c.Nontrivial()
			cmdUgo(c, cb, si)
		}
	}
}

type failure struct {
	class, what string
	preempt     int
	choices     []int
	trace       string
	count       int64
}

// stuck reports a thread that runs without ever reaching a synchronisation operation - it cannot see an Abort, and it
// cannot be stopped: the violation is made durable and the worker exits (the framework resumes behind the scenario).
func stuck(c *fw.Ctx, s *scenario, e *vsched.Exec) {
	c.Violation(s.key+" | stuck", fmt.Sprintf("abort-lost: thread %q ran for %s without a single synchronisation operation - the running VM never looks at its abort flag, no Abort can reach it", e.Stuck, vsched.StepTimeout),
		map[string]any{"scenario": s.desc, "schedule": fmt.Sprint(e.Choices()), "events": e.Trace()})
	c.Checkpoint()
	os.Exit(98)
}

func explore(c *fw.Ctx, s *scenario, cfg vsched.Config, bound int) {
	curScenario = s
	defer func() { curScenario = nil }()
	// determinism self-check: the default schedule twice
	e1 := vsched.Run(cfg, nil, s.body)
	if e1.Stuck != "" {
		stuck(c, s, e1)
	}
	e2 := vsched.Run(cfg, e1.Choices(), s.body)
	if e2.Stuck != "" {
		stuck(c, s, e2)
	}
	if e1.Trace() != e2.Trace() || e1.Diverged != "" || e2.Diverged != "" {
		c.Infra("scenario %q: replaying the default schedule gives a different event log (%s | %s)", s.key, e1.Diverged, e2.Diverged)
		return
	}
	stats := &vsched.Stats{StateHashes: map[uint64]bool{}}
	fails := map[string]*failure{}
	complete := true
	nontriv := int64(0)
	vsched.Explore(cfg, bound, s.body, func(e *vsched.Exec) bool {
		if e.Stuck != "" {
			stuck(c, s, e)
		}
		if e.Diverged != "" {
			c.Infra("scenario %q: %s (schedule %v)", s.key, e.Diverged, e.Choices())
			complete = false
			return false
		}
		class, what, outcome, nt := s.judge(e)
		if nt {
			nontriv++
		}
		if class != "" {
			f := fails[class]
			p := e.Preemptions()
			if f == nil || p < f.preempt || (p == f.preempt && len(e.Points) < len(f.choices)) {
				n := int64(0)
				if f != nil {
					n = f.count
				}
				f = &failure{class: class, what: what, preempt: p, choices: e.Choices(), trace: e.Trace(), count: n}
				fails[class] = f
			}
			f.count++
			c.Outcome("VIOLATING: " + class)
		} else {
			c.Outcome(outcome)
		}
		return true
	}, stats, func() bool {
		if c.Expired() {
			complete = false
			return false
		}
		return true
	})
	if cfg.TopMod > 0 && cfg.TopRem > 0 {
		stats.Executions-- // the default schedule is counted by unit 0
	}
	c.AddEval(stats.Executions)
	c.AddTraces(stats.Executions)
	c.AddTransitions(stats.Points)
	c.AddStates(int64(len(stats.StateHashes)))
	c.Count("schedules", stats.Executions)
	c.Count("executions_cut_at_horizon", stats.Cut)
	if nontriv > 0 {
		c.Nontrivial()
	}
	c.Count("executions_with_abort_inside_run", nontriv)
	c.Sample(map[string]any{"scenario": s.key, "driver": s.desc, "schedules": stats.Executions, "max_points": stats.MaxPoints, "preemption_bound": bound, "complete": complete, "default_schedule_trace": e1.Trace()})
	classes := make([]string, 0, len(fails))
	for k := range fails {
		classes = append(classes, k)
	}
	sort.Strings(classes)
	for _, k := range classes {
		f := fails[k]
		c.Violation(s.key+" | "+k, f.what, map[string]any{
			"scenario": s.key, "driver": s.desc, "failing_schedules": f.count, "of_schedules": stats.Executions,
			"preemptions_of_shown_schedule": f.preempt, "choices": f.choices, "trace": f.trace,
			"replay": "./run.sh C09 quick --only '" + s.key + "'",
		})
	}
}
