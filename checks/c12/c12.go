// Package c12 decides C12: a module is loaded once per run and every import
// sees the same object; builtin module values are private per VM; cycles and
// unknown modules are compile errors.
package c12

import (
	"fmt"
	"path/filepath"
	"strings"

	"github.com/ozanh/ugo"
	"github.com/ozanh/ugo/importers"

	"verif/internal/cmpx"
	"verif/internal/fw"
	"verif/internal/gen"
	"verif/internal/ref"
	"verif/internal/run"
	"verif/internal/uv"
)

func init() {
	fw.Register(&fw.Check{
		ID:    "C12",
		Level: "model_checking",
		Rule: "import graphs = every directed graph on 2 (thorough 3) source modules incl. self-imports and cycles; each module body logs, imports its dependencies and returns closures over private state; " +
			"main imports m0 and m1 through every pair of 9 import sites (top level, function called 0/1/2 times, loop, false/true condition, Go callback running a child VM, closure returned by another module) and then observes " +
			"state through fresh imports. The reference interpreter gives the body log (each body at most once, only if an import executes), the shared state and the value; the VM must agree with optimizer on/off and after an encode/decode round trip. " +
			"Every cyclic graph and every unknown module must be a compile error (never a hang or a runtime failure). Builtin-module values are checked to be private per VM on a separate family. " +
			"states = programs, transitions = reference steps, traces = implementation runs; non-trivial = a module is imported from two sites or by two modules",
		Run: run12,
	})
}

const nmods = 3

type graph [nmods][nmods]bool // g[i][j]: module i imports module j

func (g graph) cyclicFrom(n int, roots []int) bool {
	color := make([]int, n)
	var dfs func(i int) bool
	dfs = func(i int) bool {
		color[i] = 1
		for j := 0; j < n; j++ {
			if g[i][j] {
				if color[j] == 1 {
					return true
				}
				if color[j] == 0 && dfs(j) {
					return true
				}
			}
		}
		color[i] = 2
		return false
	}
	for _, r := range roots {
		if color[r] == 0 && dfs(r) {
			return true
		}
	}
	return false
}

func mname(i int) string { return fmt.Sprintf("m%d", i) }

func moduleBody(g graph, n, i int) []gen.Stmt {
	body := []gen.Stmt{gen.Global{Names: []string{"L"}}, gen.ExprStmt{X: gen.L(int64(100 + i))}}
	var bump []gen.Stmt
	for j := 0; j < n; j++ {
		if g[i][j] {
			d := fmt.Sprintf("d%d", j)
			body = append(body, gen.Define{Names: []string{d}, X: gen.Import{N: mname(j)}})
			bump = append(bump, gen.ExprStmt{X: gen.Call{Fn: gen.Sel{X: gen.Name{N: d}, N: "inc"}}})
		}
	}
	st := gen.Sel{X: gen.Name{N: "state"}, N: "n"}
	incBody := append([]gen.Stmt{gen.IncDec{X: st, Op: "++"}}, bump...)
	incBody = append(incBody, gen.Return{X: st})
	body = append(body,
		gen.Define{Names: []string{"state"}, X: gen.MapLit{K: []string{"n"}, V: []gen.Expr{gen.IntLit{V: int64(10 * i)}}}},
		gen.ExprStmt{X: gen.L(int64(200 + i))},
	)
	keys := []string{"inc", "get"}
	vals := []gen.Expr{gen.Func{Body: incBody}, gen.Func{Body: []gen.Stmt{gen.Return{X: st}}}}
	if i >= 1 {
		// imports m0 only when called (an import inside a closure returned by a module); for the
		// compile-time cycle check this is an edge i -> 0 like any other import
		keys = append(keys, "lazy")
		vals = append(vals, gen.Func{Body: []gen.Stmt{gen.Return{X: gen.Import{N: "m0"}}}})
	}
	body = append(body, gen.Return{X: gen.MapLit{K: keys, V: vals}})
	return body
}

const nsites = 9

// site returns statements that bind variable r to the result of importing m at the given kind of site.
func site(kind int, m, r string) []gen.Stmt {
	imp := gen.Import{N: m}
	f := "f" + r
	fn := gen.Func{Body: []gen.Stmt{gen.Return{X: imp}}}
	switch kind {
	case 0:
		return []gen.Stmt{gen.Define{Names: []string{r}, X: imp}}
	case 1:
		return []gen.Stmt{gen.Define{Names: []string{f}, X: fn}, gen.Define{Names: []string{r}, X: gen.CallN(f)}}
	case 2:
		return []gen.Stmt{gen.Define{Names: []string{f}, X: fn}, gen.ExprStmt{X: gen.Call{Fn: gen.Sel{X: gen.CallN(f), N: "inc"}}}, gen.Define{Names: []string{r}, X: gen.CallN(f)}}
	case 3:
		return []gen.Stmt{gen.Define{Names: []string{f}, X: fn}, gen.Var{N: r}}
	case 4:
		return []gen.Stmt{gen.Var{N: r}, gen.For{Init: gen.Define{Names: []string{"i" + r}, X: gen.IntLit{V: 0}}, Cond: gen.Bin{Op: "<", L: gen.Name{N: "i" + r}, R: gen.IntLit{V: 2}},
			Post: gen.IncDec{X: gen.Name{N: "i" + r}, Op: "++"}, Body: []gen.Stmt{gen.Assign{T: []gen.Expr{gen.Name{N: r}}, Op: "=", X: imp}}}}
	case 5:
		return []gen.Stmt{gen.Var{N: r}, gen.If{Cond: gen.Name{N: "zero"}, Then: []gen.Stmt{gen.Assign{T: []gen.Expr{gen.Name{N: r}}, Op: "=", X: imp}}}}
	case 6:
		return []gen.Stmt{gen.Var{N: r}, gen.If{Cond: gen.Un{Op: "!", X: gen.Name{N: "zero"}}, Then: []gen.Stmt{gen.Assign{T: []gen.Expr{gen.Name{N: r}}, Op: "=", X: imp}}}}
	case 7:
		return []gen.Stmt{gen.Define{Names: []string{r}, X: gen.CallN("CB", fn)}}
	default: // 8: through the closure returned by m1 (only meaningful for m0)
		return []gen.Stmt{gen.Define{Names: []string{r}, X: gen.Call{Fn: gen.Sel{X: gen.Import{N: "m1"}, N: "lazy"}}}}
	}
}

func use(r string) gen.Expr {
	return gen.Cond{C: gen.Name{N: r}, A: gen.Call{Fn: gen.Sel{X: gen.Name{N: r}, N: "inc"}}, B: gen.IntLit{V: -1}}
}

func mainBody(kindA, kindB int) []gen.Stmt {
	body := []gen.Stmt{gen.Global{Names: []string{"L", "CB"}}, gen.Define{Names: []string{"zero"}, X: gen.IntLit{V: 0}}}
	body = append(body, site(kindA, "m0", "ra")...)
	body = append(body, gen.ExprStmt{X: gen.L(1)})
	body = append(body, site(kindB, "m1", "rb")...)
	body = append(body, gen.ExprStmt{X: gen.L(2)},
		gen.Define{Names: []string{"ua"}, X: use("ra")}, gen.Define{Names: []string{"ub"}, X: use("rb")},
		gen.Define{Names: []string{"x"}, X: gen.Import{N: "m0"}}, gen.Define{Names: []string{"y"}, X: gen.Import{N: "m1"}},
		gen.Return{X: gen.Arr{E: []gen.Expr{gen.Name{N: "ua"}, gen.Name{N: "ub"},
			gen.Call{Fn: gen.Sel{X: gen.Name{N: "x"}, N: "get"}}, gen.Call{Fn: gen.Sel{X: gen.Name{N: "y"}, N: "get"}},
			gen.Call{Fn: gen.Sel{X: gen.Name{N: "y"}, N: "inc"}}, gen.Call{Fn: gen.Sel{X: gen.Import{N: "m0"}, N: "get"}},
			gen.Call{Fn: gen.Sel{X: gen.Call{Fn: gen.Sel{X: gen.Name{N: "y"}, N: "lazy"}}, N: "get"}}}}})
	return body
}

// cbGlobal is the Go callback: it calls the script function through an Invoker (child VM).
func cbGlobal(pooled bool) *ugo.Function {
	return &ugo.Function{Name: "CB", ValueEx: func(c ugo.Call) (ugo.Object, error) {
		inv := ugo.NewInvoker(c.VM(), c.Get(0))
		if pooled {
			inv.Acquire()
			defer inv.Release()
		}
		return inv.Invoke()
	}}
}

func run12(c *fw.Ctx) {
	n := 2
	if c.Thorough() {
		n = 3
	}
	ngraphs := 1 << (n * n)
	c.Family("graphs", fmt.Sprintf("%d graphs on %d modules x %d x %d import sites", ngraphs, n, nsites, nsites))
	for code := 0; code < ngraphs; code++ {
		var g graph
		for b := 0; b < n*n; b++ {
			g[b/n][b%n] = code&(1<<b) != 0
		}
		mods := map[string][]gen.Stmt{}
		modSrc := map[string]string{}
		for i := 0; i < n; i++ {
			mods[mname(i)] = moduleBody(g, n, i)
			modSrc[mname(i)] = gen.SourceLines(mods[mname(i)])
		}
		gc := g
		for i := 1; i < n; i++ {
			gc[i][0] = true // the lazy import
		}
		cyclic := gc.cyclicFrom(n, []int{0, 1})
		for ka := 0; ka < nsites; ka++ {
			for kb := 0; kb < nsites; kb++ {
				if !c.Next() {
					continue
				}
				body := mainBody(ka, kb)
				one(c, body, mods, modSrc, cyclic, fmt.Sprintf("graph=%0*b sites=%d,%d", n*n, code, ka, kb))
			}
		}
	}
	c.Family("unknown-module", "import of a module that is not in the module map, at every site")
	for k := 0; k < nsites; k++ {
		if !c.Next() {
			continue
		}
		src := gen.SourceLines(append([]gen.Stmt{gen.Global{Names: []string{"L", "CB"}}, gen.Define{Names: []string{"zero"}, X: gen.IntLit{V: 0}}}, site(k, "nope", "r")...))
		key := fmt.Sprintf("unknown-module site=%d", k)
		if c.Skip(key) {
			continue
		}
		c.AddStates(1)
		for _, noopt := range []bool{false, true} {
			o := run.Source(src, run.Options{NoOptimize: noopt, Modules: map[string]string{"m0": "return 1", "m1": "return {lazy: func() { return 1 }}"}, Globals: ugo.Map{"CB": cbGlobal(false)}})
			c.AddTraces(1)
			if k == 8 {
				continue // site 8 imports m1, not the unknown module
			}
			if o.CompileErr == "" || !strings.Contains(o.CompileErr, "not found") {
				c.Violation(key, "importing an unknown module is not a compile error: "+o.String(), map[string]any{"program": src})
			}
		}
	}
	builtinPrivacy(c)
	fileModules(c)
	manyModules(c)
	twoDirectories(c)
	paramModules(c)
}

func one(c *fw.Ctx, body []gen.Stmt, mods map[string][]gen.Stmt, modSrc map[string]string, cyclic bool, key string) {
	if c.Skip(key) {
		return
	}
	src := gen.SourceLines(body)
	c.AddStates(1)
	var r ref.Result
	if !cyclic {
		in := ref.New()
		in.Globals["CB"] = &ref.Builtin{Name: "CB", Fn: func(in *ref.Interp, args []ref.V) (ref.V, *ref.ErrV) { return in.Call(args[0], nil) }}
		r = in.Run(&gen.Program{Main: body, Modules: mods})
		if r.Unsupported != "" || r.Budget {
			c.Infra("reference cannot run %s: %s", key, r.Unsupported)
			return
		}
		c.AddTransitions(int64(in.Steps))
		multi := 0
		for _, n := range in.ModRuns {
			if n > 1 {
				c.Infra("reference ran a module body twice: %s", key)
			}
			multi += n
		}
		if multi >= 2 {
			c.Nontrivial()
		}
		c.Sample(map[string]any{"key": key, "main": src, "modules": modSrc, "reference": cmpx.RefString(r)})
	} else {
		c.Nontrivial()
	}
	for _, noopt := range []bool{false, true} {
		for _, rt := range []int{0, 1} {
			for _, pooled := range []bool{false, true} {
				o := run.Source(src, run.Options{NoOptimize: noopt, EncodeDecode: rt, Modules: modSrc, Globals: ugo.Map{"CB": cbGlobal(pooled)}})
				c.AddTraces(1)
				cfg := fmt.Sprintf("noopt=%v roundtrips=%d pooled=%v", noopt, rt, pooled)
				if cyclic {
					if o.CompileErr == "" || !strings.Contains(o.CompileErr, "cyclic") {
						c.Violation(key, fmt.Sprintf("an import cycle is not reported at compile time (%s): %s", cfg, o.String()), map[string]any{"main": src, "modules": modSrc})
						return
					}
					continue
				}
				if d := cmpx.Compare(r, o); d != "" {
					c.Violation(key, fmt.Sprintf("%s (%s)", d, cfg), map[string]any{"main": src, "modules": modSrc, "reference": cmpx.RefString(r), "implementation": o.String()})
					return
				}
			}
		}
	}
}

// builtinPrivacy: values of imported builtin modules are private per VM.
// fileModules: source modules imported from files through importers.FileImporter (what cmd/ugo uses). One state
// module is reached from main by every pair of spellings of its path, directly and through two other modules, under
// relative and absolute working directories: its body must run once and all imports must be the same object.
func fileModules(c *fw.Ctx) {
	c.Family("file-importer", "one module file reached by every ordered pair of 10 path spellings (plain, ./, through a sub directory and back, above the root and back, absolute, through a sibling module, through a module in a sub directory, from inside a function) x 4 working directories (., empty, relative, absolute) x optimizer on/off")
	cwd, err := filepath.Abs(".")
	if err != nil {
		c.Infra("getwd: %v", err)
		return
	}
	root := filepath.Join(cwd, "vroot12", "proj")
	files := map[string]string{
		filepath.Join(root, "state.ugo"):    "global L\nL(\"state body\")\nn := 0\nreturn {inc: func() { n++; return n }}\n",
		filepath.Join(root, "a.ugo"):        "return import(\"state.ugo\")\n",
		filepath.Join(root, "sub", "b.ugo"): "return import(\"../state.ugo\")\n",
	}
	reader := func(name string) ([]byte, error) {
		abs, err := filepath.Abs(name)
		if err != nil {
			return nil, err
		}
		if src, ok := files[filepath.Clean(abs)]; ok {
			return []byte(src), nil
		}
		return nil, fmt.Errorf("no such file %s", name)
	}
	type wd struct{ name, dir, prefix string }
	rel, _ := filepath.Rel(cwd, root)
	wds := []wd{
		{"relative", rel, ""},
		{"absolute", root, ""},
		{"dot", ".", rel + "/"},
		{"empty", "", rel + "/"},
	}
	for _, w := range wds {
		spell := []struct{ name, expr string }{
			{"plain", "import(\"" + w.prefix + "state.ugo\")"},
			{"dot-slash", "import(\"./" + w.prefix + "state.ugo\")"},
			{"sub-and-back", "import(\"" + w.prefix + "sub/../state.ugo\")"},
			{"above-and-back", "import(\"" + w.prefix + "../proj/state.ugo\")"},
			{"absolute", "import(\"" + filepath.Join(root, "state.ugo") + "\")"},
			{"via-sibling", "import(\"" + w.prefix + "a.ugo\")"},
			{"via-subdir-module", "import(\"" + w.prefix + "sub/b.ugo\")"},
			{"in-function", "func() { return import(\"" + w.prefix + "state.ugo\") }()"},
			{"abs-via-sibling", "import(\"" + filepath.Join(root, "a.ugo") + "\")"},
			{"absolute-sub-and-back", "import(\"" + root + "/sub/../state.ugo\")"},
		}
		for _, s1 := range spell {
			for _, s2 := range spell {
				for _, noopt := range []bool{false, true} {
					if !c.Next() {
						continue
					}
					key := fmt.Sprintf("file-importer wd=%s first=%s second=%s noopt=%v", w.name, s1.name, s2.name, noopt)
					if c.Skip(key) {
						continue
					}
					c.Nontrivial()
					c.AddStates(1)
					src := "global L\nm1 := " + s1.expr + "\nm2 := " + s2.expr + "\nm1.inc()\nreturn [m2.inc(), m1.inc()]\n"
					mm := ugo.NewModuleMap().SetExtImporter(&importers.FileImporter{WorkDir: w.dir, FileReader: reader})
					var log []string
					bc, cerr := ugo.Compile([]byte(src), ugo.CompilerOptions{ModuleMap: mm, NoOptimize: noopt})
					if cerr != nil {
						c.Violation(key, "compiling fails: "+cerr.Error(), map[string]any{"main": src, "workdir": w.dir})
						continue
					}
					g := ugo.Map{"L": &ugo.Function{Name: "L", Value: func(a ...ugo.Object) (ugo.Object, error) {
						log = append(log, a[0].String())
						return ugo.Undefined, nil
					}}}
					v, rerr := ugo.NewVM(bc).Run(g)
					c.AddTraces(1)
					c.AddTransitions(1)
					got := uv.Outcome(v, rerr) + " log=" + fmt.Sprint(log)
					if want := "OK [2, 3] log=[state body]"; got != want {
						c.Violation(key, fmt.Sprintf("the module file is reached by two spellings of its path: %s, want %s", got, want), map[string]any{"main": src, "workdir": w.dir})
					}
				}
			}
		}
	}
}

// twoDirectories: the same relative spelling used from modules in two directories names two different files; each
// file is one module (body runs once, one object) whatever the order in which the spellings are met.
func twoDirectories(c *fw.Ctx) {
	c.Family("file-importer-two-directories", "a/mod.ugo and b/mod.ugo both import \"./util.ugo\" (their own), main imports every ordered triple of {a/mod, b/mod, a/util, b/util, a/fmod, b/fmod} (fmod imports inside a function literal; a decoy util.ugo lies in the main script's directory) x 2 working directories x optimizer on/off; model: one module per file")
	cwd, err := filepath.Abs(".")
	if err != nil {
		c.Infra("getwd: %v", err)
		return
	}
	root := filepath.Join(cwd, "vroot12", "two")
	files := map[string]string{}
	for _, d := range []string{"a", "b"} {
		files[filepath.Join(root, d, "mod.ugo")] = "return import(\"./util.ugo\")\n"
		files[filepath.Join(root, d, "util.ugo")] = "global L\nL(\"body " + d + "\")\nn := 0\nreturn {id: \"" + d + "\", inc: func() { n++; return n }}\n"
		// the relative import is written inside a function literal of the module (compiled by a child compiler): it
		// still is relative to the module's directory
		files[filepath.Join(root, d, "fmod.ugo")] = "f := func() { return import(\"./util.ugo\") }\nreturn f()\n"
	}
	// a file of the same name in the working directory of the main script must not be taken instead
	files[filepath.Join(root, "util.ugo")] = "global L\nL(\"body root\")\nn := 100\nreturn {id: \"root\", inc: func() { n++; return n }}\n"

	reader := func(name string) ([]byte, error) {
		abs, err := filepath.Abs(name)
		if err != nil {
			return nil, err
		}
		if src, ok := files[filepath.Clean(abs)]; ok {
			return []byte(src), nil
		}
		return nil, fmt.Errorf("no such file %s", name)
	}
	rel, _ := filepath.Rel(cwd, root)
	targets := []struct{ path, dir string }{{"a/mod.ugo", "a"}, {"b/mod.ugo", "b"}, {"a/util.ugo", "a"}, {"b/util.ugo", "b"}, {"a/fmod.ugo", "a"}, {"b/fmod.ugo", "b"}}
	for _, wd := range []string{rel, root} {
		for i1 := range targets {
			for i2 := range targets {
				for i3 := range targets {
					if i1 == i2 || i2 == i3 || i1 == i3 {
						continue
					}
					for _, noopt := range []bool{false, true} {
						if !c.Next() {
							continue
						}
						pick := []int{i1, i2, i3}
						key := fmt.Sprintf("two-directories wd-absolute=%v imports=%s,%s,%s noopt=%v", wd == root, targets[i1].path, targets[i2].path, targets[i3].path, noopt)
						if c.Skip(key) {
							continue
						}
						c.Nontrivial()
						c.AddStates(1)
						src := "global L\nr := []\n"
						counts := map[string]int{}
						var wantR, wantLog []string
						for k, ti := range pick {
							src += fmt.Sprintf("m%d := import(\"%s\")\nr = append(r, m%d.id, m%d.inc())\n", k, targets[ti].path, k, k)
							d := targets[ti].dir
							if counts[d] == 0 {
								wantLog = append(wantLog, "body "+d)
							}
							counts[d]++
							wantR = append(wantR, fmt.Sprintf("%q", d), fmt.Sprint(counts[d]))
						}
						src += "return r\n"
						mm := ugo.NewModuleMap().SetExtImporter(&importers.FileImporter{WorkDir: wd, FileReader: reader})
						var log []string
						bc, cerr := ugo.Compile([]byte(src), ugo.CompilerOptions{ModuleMap: mm, NoOptimize: noopt})
						if cerr != nil {
							c.Violation(key, "compiling fails: "+cerr.Error(), map[string]any{"main": src, "workdir": wd})
							continue
						}
						g := ugo.Map{"L": &ugo.Function{Name: "L", Value: func(a ...ugo.Object) (ugo.Object, error) {
							log = append(log, a[0].String())
							return ugo.Undefined, nil
						}}}
						v, rerr := ugo.NewVM(bc).Run(g)
						c.AddTraces(1)
						c.AddTransitions(1)
						got := uv.Outcome(v, rerr) + " log=" + fmt.Sprint(log)
						// the module bodies run when first imported at run time, which is the order of the main script
						want := "OK [" + strings.Join(wantR, ", ") + "] log=" + fmt.Sprint(wantLog)
						if got != want {
							c.Violation(key, fmt.Sprintf("one module per file: got %s, want %s", got, want), map[string]any{"main": src, "workdir": wd})
						}
					}
				}
			}
		}
	}
}

// paramModules: a source module may declare parameters (they are undefined: nothing can be passed); every import
// expression of it - compiled first or later, executed first or later - loads or re-uses the one module.
func paramModules(c *fw.Ctx) {
	c.Family("param-modules", "module declaring param a / (a, b) / (a, b, c) / (a, ...b) x 7 main programs whose import expressions are compiled in one order and executed in another x optimizer on/off x encode/decode")
	decls := []struct{ decl, probe, want string }{
		{"param a", "a", "undefined"},
		{"param (a, b)", "[a, b]", "[undefined, undefined]"},
		{"param (a, b, c)", "[a, b, c]", "[undefined, undefined, undefined]"},
		{"param (a, ...b)", "[a, b]", "[undefined, []]"},
	}
	mains := []struct{ name, src, want string }{
		{"function literal above the top-level import", "f := func() { return import(\"pm\") }\nm := import(\"pm\")\nreturn [m.inc(), f().inc(), m.p]", "[1, 2, P]"},
		{"function literal above, called first", "f := func() { return import(\"pm\") }\nx := f()\nm := import(\"pm\")\nreturn [x.inc(), m.inc(), m.p]", "[1, 2, P]"},
		{"untaken conditional import first", "z := 0\nvar m1\nif z { m1 = import(\"pm\") }\nm2 := import(\"pm\")\nreturn [m2.inc(), m2.inc(), m2.p]", "[1, 2, P]"},
		{"first import inside another module's function, executed later", "o := import(\"other\")\nm := import(\"pm\")\nreturn [m.inc(), o.get().inc(), m.p]", "[1, 2, P]"},
		{"first import inside another module's function, executed first", "o := import(\"other\")\ng := o.get()\nm := import(\"pm\")\nreturn [g.inc(), m.inc(), g.p]", "[1, 2, P]"},
		{"import in a loop body", "r := []\nfor i := 0; i < 3; i++ { m := import(\"pm\"); r = append(r, m.inc()) }\nreturn [r, import(\"pm\").p]", "[[1, 2, 3], P]"},
		{"two plain imports", "m1 := import(\"pm\")\nm2 := import(\"pm\")\nreturn [m1.inc(), m2.inc(), m2.p]", "[1, 2, P]"},
	}
	for _, d := range decls {
		for _, mp := range mains {
			for _, noopt := range []bool{false, true} {
				for _, rt := range []int{0, 1} {
					if !c.Next() {
						continue
					}
					key := fmt.Sprintf("param-modules decl=%q main=%q noopt=%v roundtrips=%d", d.decl, mp.name, noopt, rt)
					if c.Skip(key) {
						continue
					}
					c.Nontrivial()
					c.AddStates(1)
					mm := ugo.NewModuleMap()
					mm.AddSourceModule("pm", []byte(d.decl+"\nglobal L\nL(\"pm body\")\nn := 0\nreturn {inc: func() { n++; return n }, p: "+d.probe+"}\n"))
					mm.AddSourceModule("other", []byte("return {get: func() { return import(\"pm\") }}\n"))
					src := "global L\n" + mp.src + "\n"
					o := run.Source(src, run.Options{ModuleMap: mm, NoOptimize: noopt, EncodeDecode: rt})
					c.AddTraces(1)
					c.AddTransitions(1)
					want := "OK " + strings.Replace(mp.want, "P", d.want, 1) + " log=[\"pm body\"]"
					if got := o.String(); got != want {
						c.Violation(key, fmt.Sprintf("module with parameters imported at several places: got %s, want %s", got, want), map[string]any{"main": src, "module": d.decl})
					}
				}
			}
		}
	}
}

// manyModules: module indexes around the one-byte boundary of the instruction operands.
func manyModules(c *fw.Ctx) {
	c.Family("many-modules", "N = 255, 256, 257, 300 source modules, each imported twice from main: every body runs once, both imports give the same object, no module is replaced by another; optimizer on/off x encode/decode")
	for _, n := range []int{255, 256, 257, 300} {
		for _, noopt := range []bool{false, true} {
			for _, rt := range []int{0, 1} {
				if !c.Next() {
					continue
				}
				key := fmt.Sprintf("many-modules n=%d noopt=%v roundtrips=%d", n, noopt, rt)
				if c.Skip(key) {
					continue
				}
				c.Nontrivial()
				c.AddStates(1)
				mm := ugo.NewModuleMap()
				var sb strings.Builder
				sb.WriteString("global L\nbad := []\nvar (a, b)\n")
				for k := 0; k < n; k++ {
					mm.AddSourceModule(fmt.Sprintf("m%d", k), []byte(fmt.Sprintf("global L\nL(%d)\nst := {id: %d, n: 0}\nreturn st\n", k, k)))
				}
				for k := 0; k < n; k++ {
					fmt.Fprintf(&sb, "a = import(\"m%d\"); a.n++; b = import(\"m%d\"); if a.id != %d || b.id != %d || b.n != 1 { bad = append(bad, [%d, a.id, b.id, b.n]) }\n", k, k, k, k, k)
				}
				// and again at the end: still the same objects
				fmt.Fprintf(&sb, "z := import(\"m0\"); y := import(\"m%d\"); return [bad, z.id, z.n, y.id, y.n]\n", n-1)
				bc, err := ugo.Compile([]byte(sb.String()), ugo.CompilerOptions{ModuleMap: mm, NoOptimize: noopt})
				if err != nil {
					c.Violation(key, "compiling fails: "+err.Error(), nil)
					continue
				}
				if rt > 0 {
					var rerr error
					bc, rerr = run.RoundTrip(bc, mm, rt)
					if rerr != nil {
						c.Violation(key, "encode/decode fails: "+rerr.Error(), nil)
						continue
					}
				}
				counts := map[string]int{}
				g := ugo.Map{"L": &ugo.Function{Name: "L", Value: func(a ...ugo.Object) (ugo.Object, error) {
					counts[a[0].String()]++
					return ugo.Undefined, nil
				}}}
				v, rerr := ugo.NewVM(bc).Run(g)
				c.AddTraces(1)
				c.AddTransitions(int64(2 * n))
				want := fmt.Sprintf("OK [[], 0, 1, %d, 1]", n-1)
				got := uv.Outcome(v, rerr)
				twice := 0
				for k := 0; k < n; k++ {
					if counts[fmt.Sprint(k)] != 1 {
						twice++
					}
				}
				if got != want || twice > 0 {
					if len(got) > 300 {
						got = got[:300] + "..."
					}
					c.Violation(key, fmt.Sprintf("with %d modules: %s (want %s); %d module bodies did not run exactly once", n, got, want, twice), nil)
				}
			}
		}
	}
}

func builtinPrivacy(c *fw.Ctx) {
	c.Family("builtin-privacy", "a script's changes to a builtin module value (top-level key, nested array/map element, sync map) are invisible to a second VM over the same Bytecode and to a later compile")
	attrs := func() map[string]ugo.Object {
		return map[string]ugo.Object{"x": ugo.Int(1), "arr": ugo.Array{ugo.Int(1), ugo.Array{ugo.Int(2)}}, "m": ugo.Map{"k": ugo.Int(1), "inner": ugo.Map{"z": ugo.Int(3)}},
			"sm": &ugo.SyncMap{Value: ugo.Map{"q": ugo.Int(1)}}, "by": ugo.Bytes("ab")}
	}
	muts := []string{`b.x = 99`, `b.arr[0] = 99`, `b.arr[1][0] = 99`, `b.m.k = 99`, `b.m.inner.z = 99`, `b.sm.q = 99`, `b.by[0] = 99`, `b.newkey = 99`, `delete(b, "x")`, `b.arr = append(b.arr, 5)`}
	read := `return [b.x, b.arr, b.m, b.sm, b.by, b.newkey]`
	for mi, mut := range muts {
		for _, rt := range []int{0, 1} {
			for _, viaFunc := range []bool{false, true} {
				if !c.Next() {
					continue
				}
				key := fmt.Sprintf("builtin-privacy mut=%d roundtrips=%d viaFunc=%v", mi, rt, viaFunc)
				if c.Skip(key) {
					continue
				}
				c.Nontrivial()
				c.AddStates(1)
				host := attrs()
				mm := ugo.NewModuleMap()
				mm.AddBuiltinModule("bm", host)
				src := "param (doMut)\nb := import(\"bm\")\nif doMut {\n\t" + mut + "\n}\n" + read
				if viaFunc {
					src = "param (doMut)\nf := func() {\n\treturn import(\"bm\")\n}\nb := f()\nif doMut {\n\t" + mut + "\n}\nb = f()\n" + read
				}
				bc, err := ugo.Compile([]byte(src), ugo.CompilerOptions{ModuleMap: mm})
				if err != nil {
					c.Infra("builtin privacy program does not compile: %v", err)
					continue
				}
				if rt > 0 {
					bc, err = run.RoundTrip(bc, mm, rt)
					if err != nil {
						c.Infra("round trip: %v", err)
						continue
					}
				}
				pristine := run.Bytecode(bc, run.Options{Args: []ugo.Object{ugo.False}})
				hostBefore := uv.Repr(ugo.Map(host))
				mutated := run.Bytecode(bc, run.Options{Args: []ugo.Object{ugo.True}})
				second := run.Bytecode(bc, run.Options{Args: []ugo.Object{ugo.False}})
				c.AddTraces(3)
				c.Sample(map[string]any{"program": src, "pristine": pristine.String(), "after_mutation_in_vm1": mutated.String()})
				if second.Key() != pristine.Key() {
					c.Violation(key, fmt.Sprintf("a second VM over the same Bytecode sees the first VM's change to a builtin module value: %s, expected %s", second.String(), pristine.String()), map[string]any{"program": src})
					continue
				}
				if uv.Repr(ugo.Map(host)) != hostBefore {
					c.Violation(key, "the script modified the host's BuiltinModule.Attrs", map[string]any{"program": src})
					continue
				}
				bc2, err := ugo.Compile([]byte(src), ugo.CompilerOptions{ModuleMap: mm})
				if err == nil {
					if third := run.Bytecode(bc2, run.Options{Args: []ugo.Object{ugo.False}}); third.Key() != pristine.Key() {
						c.Violation(key, "a later compile sees the change: "+third.String(), map[string]any{"program": src})
					}
				}
			}
		}
	}
}
