// Command vcheck runs one property check (parent) or one shard of it (worker).
package main

import (
	"verif/internal/fw"

	_ "verif/checks/c01"
	_ "verif/checks/c02"
	_ "verif/checks/c03"
	_ "verif/checks/c04"
	_ "verif/checks/c05"
	_ "verif/checks/c06"
	_ "verif/checks/c07"
	_ "verif/checks/c10"
	_ "verif/checks/c11"
	_ "verif/checks/c12"
	_ "verif/checks/c13"
	_ "verif/checks/c14"
	_ "verif/checks/c15"
	_ "verif/checks/c16"
	_ "verif/checks/c17"
	_ "verif/checks/c18"
	_ "verif/checks/c19"
	_ "verif/checks/c20"
)

func main() { fw.Main() }
