//go:build vrace

// Command vrace is the race pass of C08. It is built with -race from /repo's
// working tree (no scheduler shim: the repository's own synchronisation is the
// only synchronisation the detector sees) and runs the same harness bodies as
// the schedule explorer.
//
//	vrace selftest racy|clean
//	vrace run <quick|thorough> <i,j,k,...>    prints "DONE <i>" after each program
//
// For every program two VMs execute one Bytecode on two goroutines in three
// ways: A then B and B then A with the hand-off hidden from the detector
// (runtime.RaceDisable around it: in the happens-before relation the two runs
// are concurrent, so every conflicting unsynchronised pair of accesses is
// reported, independently of timing), and free-running. GORACE=halt_on_error=1
// exitcode=66 is set by the caller; the first report ends the process.
package main

import (
	"fmt"
	"os"
	"runtime"
	"strconv"
	"strings"
	"sync"

	"verif/checks/c08/corpus"
)

func hiddenWait(ch chan struct{}) {
	runtime.RaceDisable()
	<-ch
	runtime.RaceEnable()
}

func hiddenSignal(ch chan struct{}) {
	runtime.RaceDisable()
	close(ch)
	runtime.RaceEnable()
}

// pair runs a and b on two goroutines that are concurrent for the detector; if serial, b starts only after a ended.
func pair(a, b func(), serial bool) {
	var wg sync.WaitGroup
	gate := make(chan struct{})
	wg.Add(2)
	go func() {
		defer wg.Done()
		a()
		hiddenSignal(gate)
	}()
	go func() {
		defer wg.Done()
		if serial {
			hiddenWait(gate)
			// empty every sync.Pool (two collections: local -> victim -> gone): an object that b takes from a pool
			// into which a has put it (fmt's printer pool, the VM pool) would order ALL of a's earlier accesses
			// before b for the detector and hide real races behind incidental synchronisation
			runtime.GC()
			runtime.GC()
		}
		b()
	}()
	wg.Wait()
}

var sink int

func main() {
	if len(os.Args) < 2 {
		os.Exit(2)
	}
	switch os.Args[1] {
	case "selftest":
		shared := 0
		var mu sync.Mutex
		if os.Args[2] == "racy" {
			pair(func() { shared = 1 }, func() { sink = shared }, true)
		} else {
			pair(func() { mu.Lock(); shared = 1; mu.Unlock() }, func() { mu.Lock(); sink = shared; mu.Unlock() }, true)
		}
		fmt.Println("SELFTEST-END")
	case "run":
		progs := corpus.Programs(os.Args[2] == "thorough")
		for _, f := range strings.Split(os.Args[3], ",") {
			i, err := strconv.Atoi(f)
			if err != nil || i < 0 || i >= len(progs) {
				fmt.Println("BAD", f)
				os.Exit(2)
			}
			p := progs[i]
			bc, err := corpus.Compile(p)
			if err != nil {
				fmt.Println("DONE", i, "compile-error")
				continue
			}
			solo0, solo1 := corpus.RunOne(bc, 0), corpus.RunOne(bc, 1)
			var r0, r1 string
			bad := ""
			check := func(how string) {
				if r0 != solo0 || r1 != solo1 {
					bad = fmt.Sprintf("%s: VM0 %q (alone %q), VM1 %q (alone %q)", how, r0, solo0, r1, solo1)
				}
			}
			pair(func() { r0 = corpus.RunOne(bc, 0) }, func() { r1 = corpus.RunOne(bc, 1) }, true)
			check("VM0 then VM1")
			pair(func() { r1 = corpus.RunOne(bc, 1) }, func() { r0 = corpus.RunOne(bc, 0) }, true)
			check("VM1 then VM0")
			pair(func() { r0 = corpus.RunOne(bc, 0) }, func() { r1 = corpus.RunOne(bc, 1) }, false)
			check("free-running")
			if bad != "" {
				fmt.Println("DIFF", i, strconv.Quote(bad))
			}
			fmt.Println("DONE", i)
		}
	}
}
