//go:build vsched

// Command vsched runs the schedule-exploring checks (C08, C09) against the
// scheduler build of ozanh/ugo (see build.sh).
package main

import (
	"verif/internal/fw"

	_ "verif/checks/c08"
	_ "verif/checks/c09"
)

func main() { fw.Main() }
