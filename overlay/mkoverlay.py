#!/usr/bin/env python3
"""Writes a `go build -overlay` JSON that ADDS the verif-only files of /verif/overlay/add/<pkgdir>/ to /repo
without touching it. Nothing in /repo is replaced by this overlay."""
import json, os
root = os.path.dirname(os.path.abspath(__file__))
add = os.path.join(root, "add")
rep = {}
for d, _, files in os.walk(add):
    for f in files:
        if f.endswith(".go"):
            rel = os.path.relpath(os.path.join(d, f), add)
            rep[os.path.join("/repo", rel)] = os.path.join(d, f)
print(json.dumps({"Replace": rep}, indent=1))
